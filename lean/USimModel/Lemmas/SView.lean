import USimModel.Lemmas.KView
/-!
# The signal view of the whole machine: a withdrawn wake-up stays withdrawn

`w.sigs` is the table of `Interrupt` objects (wake-ups of `postpone` / `suspend` / notifications, task cancellations,
scope cancellations and interrupts).  Function by function (the inventory of `Lemmas/KView.lean` a fourth time) this file
shows that code inside an activation only **adds** signals and never un-revokes one or changes what it is (`SExt`).
`Props/MachineSignals.lean` lifts this to every run: once `revoke()` was called on a signal it stays revoked, so the loop
drops its activation whenever its turn comes (C03: a withdrawn wake-up never fires).
-/
set_option linter.unusedVariables false
set_option linter.unusedSimpArgs false
namespace USim.Machine
open TimeLike USim.Prim.Kernel Lean

/-- the signal table only grew; every old signal kept its kind and its exception object, and stayed revoked if it was -/
structure SExt (s s' : Array Sig) : Prop where
  size : s.size ≤ s'.size
  keep : ∀ i, i < s.size → (s'.getD i default).kind = (s.getD i default).kind ∧ (s'.getD i default).exn = (s.getD i default).exn ∧
    ((s.getD i default).revoked = true → (s'.getD i default).revoked = true)

theorem SExt.refl (s : Array Sig) : SExt s s := ⟨Nat.le_refl _, fun _ _ => ⟨rfl, rfl, id⟩⟩

theorem SExt.trans {a b c : Array Sig} (h1 : SExt a b) (h2 : SExt b c) : SExt a c := by
  refine ⟨Nat.le_trans h1.size h2.size, ?_⟩
  intro i hi
  have k1 := h1.keep i hi
  have k2 := h2.keep i (Nat.lt_of_lt_of_le hi h1.size)
  exact ⟨k2.1.trans k1.1, k2.2.1.trans k1.2.1, fun h => k2.2.2 (k1.2.2 h)⟩

theorem SExt.push (s : Array Sig) (x : Sig) : SExt s (s.push x) := by
  refine ⟨by simp, ?_⟩
  intro i hi
  have : (s.push x).getD i default = s.getD i default := by
    rw [Array.getD_eq_getD_getElem?, Array.getD_eq_getD_getElem?, Array.getElem?_push]
    simp [Nat.ne_of_lt hi]
  rw [this]; exact ⟨rfl, rfl, id⟩

theorem SExt.modify (s : Array Sig) (j : Nat) (f : Sig → Sig)
    (hf : ∀ x, (f x).kind = x.kind ∧ (f x).exn = x.exn ∧ (x.revoked = true → (f x).revoked = true)) : SExt s (s.modify j f) := by
  refine ⟨by simp, ?_⟩
  intro i hi
  by_cases hij : j = i
  · subst hij
    have : (s.modify j f).getD j default = f (s.getD j default) := by
      rw [Array.getD_eq_getD_getElem?, Array.getD_eq_getD_getElem?, Array.getElem?_modify]
      simp [hi]
    rw [this]; exact hf _
  · have : (s.modify j f).getD i default = s.getD i default := by
      rw [Array.getD_eq_getD_getElem?, Array.getD_eq_getD_getElem?, Array.getElem?_modify]
      simp [hij]
    rw [this]; exact ⟨rfl, rfl, id⟩

namespace World
variable (w : World Rat)

/-! ### primitives that do not touch the signal table -/
@[simp, svsimp] theorem sv_setCond (s : CondId) (f : Cond Rat → Cond Rat) : (w.setCond s f).sigs = w.sigs := rfl
@[simp, svsimp] theorem sv_setAct (s : ActId) (f : Activity Rat → Activity Rat) : (w.setAct s f).sigs = w.sigs := rfl
@[simp, svsimp] theorem sv_setTask (s : TaskId) (f : Task → Task) : (w.setTask s f).sigs = w.sigs := rfl
@[simp, svsimp] theorem sv_setScope (s : ScopeId) (f : Scope → Scope) : (w.setScope s f).sigs = w.sigs := rfl
@[simp, svsimp] theorem sv_newExn (c : ExnCls) : ((w.newExn c).1).sigs = w.sigs := rfl
@[simp, svsimp] theorem sv_newCond (k : CondKind Rat) : ((w.newCond k).1).sigs = w.sigs := rfl
@[simp, svsimp] theorem sv_newAct (fs : List (Frame Rat)) (r : Bool) (l : Int) : ((w.newAct fs r l).1).sigs = w.sigs := rfl
@[simp, svsimp] theorem sv_emit (a : ActId) (t : String) (l : List Int) : (w.emit a t l).sigs = w.sigs := rfl
@[simp, svsimp] theorem sv_emitAs (a : ActId) (lb : Int) (t : String) (l : List Int) : (w.emitAs a lb t l).sigs = w.sigs := rfl
@[simp, svsimp] theorem sv_setFrames (a : ActId) (fs : List (Frame Rat)) : (w.setFrames a fs).sigs = w.sigs := rfl
@[simp, svsimp] theorem sv_setPyEv (e : Nat) (f : PyEvent → PyEvent) : (w.setPyEv e f).sigs = w.sigs := rfl
@[simp, svsimp] theorem sv_setPyProc (e : Nat) (f : PyProc Rat → PyProc Rat) : (w.setPyProc e f).sigs = w.sigs := rfl
@[simp, svsimp] theorem sv_pyBind (x : Name) (e : Nat) : (w.pyBind x e).sigs = w.sigs := rfl
@[simp, svsimp] theorem sv_newFlag  : (w.newFlag.1).sigs = w.sigs := rfl
@[simp, svsimp] theorem sv_pyNewEvent (k : PyKind) : ((w.pyNewEvent k).1).sigs = w.sigs := rfl
@[simp, svsimp] theorem sv_setMode (m : Mode) : (w.setMode m).sigs = w.sigs := by unfold setMode; split <;> rfl
@[simp, svsimp] theorem sv_emitScope (a : ActId) (s : ScopeId) (t : String) (l : List Int) : (w.emitScope a s t l).sigs = w.sigs := by
  unfold emitScope; split <;> rfl

theorem sext_foldl {α} {s0 : Array Sig} (f : World Rat → α → World Rat)
    (h : ∀ w x, SExt s0 w.sigs → SExt s0 (f w x).sigs) (l : List α) :
    ∀ (w : World Rat), SExt s0 w.sigs → SExt s0 (l.foldl f w).sigs := by
  induction l with
  | nil => intro w h0; exact h0
  | cons x xs ih => intro w h0; exact ih _ (h w x h0)

theorem sext_foldl_pair {α β} {s0 : Array Sig} (f : World Rat × β → α → World Rat × β)
    (h : ∀ p x, SExt s0 p.1.sigs → SExt s0 (f p x).1.sigs) (l : List α) :
    ∀ (p : World Rat × β), SExt s0 p.1.sigs → SExt s0 (l.foldl f p).1.sigs := by
  induction l with
  | nil => intro w h0; exact h0
  | cons x xs ih => intro w h0; exact ih _ (h w x h0)

/-- one backward step: the lemma `f_sext` of the function at the head of the world term (folds over worlds included) -/
elab "sx_apply" : tactic => do
  let g ← Lean.Elab.Tactic.getMainGoal
  let t := (← Lean.instantiateMVars (← g.getType)).cleanupAnnotations
  let some x := t.getAppArgs.back? | throwError "sx_apply: not an application"
  let some x := x.cleanupAnnotations.getAppArgs.back? | throwError "sx_apply: no world term"
  let x := x.cleanupAnnotations
  let x := if x.isAppOf ``Prod.fst then (x.getAppArgs.back?.getD x).cleanupAnnotations else x
  match x.getAppFn with
  | .const n _ =>
    if n == ``List.foldl then
      Lean.Elab.Tactic.evalTactic (← `(tactic| (refine sext_foldl _ (fun w x h => ?_) _ _ ?_ <;> try (dsimp only))))
      return
    let lem := n.appendAfter "_sext"
    if (← Lean.getEnv).contains lem then
      Lean.Elab.Tactic.evalTactic (← `(tactic| apply $(Lean.mkIdent lem)))
    else throwError "sx_apply: no lemma {lem}"
  | _ => throwError "sx_apply: head is not a constant"

/-! ### the writers of the signal table -/
theorem setSig_sext {s0 : Array Sig} (s : SigId) (f : Sig → Sig)
    (hf : ∀ x, (f x).kind = x.kind ∧ (f x).exn = x.exn ∧ (x.revoked = true → (f x).revoked = true))
    (h0 : SExt s0 w.sigs) : SExt s0 (w.setSig s f).sigs := h0.trans (SExt.modify _ _ _ hf)

theorem revoke_sext {s0 : Array Sig} (s : SigId) (h0 : SExt s0 w.sigs) : SExt s0 (w.revoke s).sigs :=
  setSig_sext w s _ (fun x => ⟨rfl, rfl, fun _ => rfl⟩) h0

theorem newSig_sext {s0 : Array Sig} (k : SigKind) (h0 : SExt s0 w.sigs) : SExt s0 (w.newSig k).1.sigs :=
  h0.trans (SExt.push _ _)

theorem scheduleNow_sext {s0 : Array Sig} (a : ActId) (s : Option SigId) (h0 : SExt s0 w.sigs) :
    SExt s0 (w.scheduleNow a s).sigs := by
  unfold scheduleNow
  cases s with
  | none => exact h0
  | some s => exact setSig_sext w s (fun x => { x with scheduled := true }) (fun x => ⟨rfl, rfl, id⟩) h0

theorem schedule_sext {s0 : Array Sig} {a : ActId} {s : Option SigId} {wh : When Rat} {w w' : World Rat}
    (h : w.schedule a s wh = some w') (h0 : SExt s0 w.sigs) : SExt s0 w'.sigs := by
  have hm : ∀ (w1 : World Rat), w1.sigs = w.sigs → SExt s0 (match s with
      | some s => w1.setSig s (fun x => { x with scheduled := true })
      | none => w1).sigs := by
    intro w1 h1
    cases s with
    | none => rw [h1]; exact h0
    | some s => exact setSig_sext w1 s _ (fun x => ⟨rfl, rfl, id⟩) (by rw [h1]; exact h0)
  unfold schedule at h
  cases wh with
  | now => simp only [Option.some.injEq] at h; subst h; exact hm _ rfl
  | delay d =>
    simp only at h
    split at h
    · exact absurd h (by simp)
    · simp only [Option.some.injEq] at h; subst h; exact hm _ rfl
  | at_ t =>
    simp only at h
    split at h
    · exact absurd h (by simp)
    · simp only [Option.some.injEq] at h; subst h; exact hm _ rfl

theorem sv_buildNorm_both :
    (∀ (w : World Rat) (c : CExpr Rat), ∀ w' i, w.buildNorm c = some (w', i) → w'.sigs = w.sigs) ∧
    (∀ (w : World Rat) (cs : List (CExpr Rat)), ∀ w' is, w.buildNorms cs = some (w', is) → w'.sigs = w.sigs) := by
  apply World.buildNorm.mutual_induct
  case case4 =>
    intro w c h1 h2 w' i h
    cases c <;> first | (exact (h1 _ rfl).elim) | (exact (h2 _ rfl).elim) | (simp [buildNorm] at h)
  case case12 =>
    intro w cs ih w' i h
    simp only [buildNorm, Option.map_eq_some_iff, Prod.exists] at h
    obtain ⟨w1, ids, h1, h2⟩ := h
    have := ih w1 ids h1
    have e : w' = (w1.newCond (.all ids)).1 := by rw [h2]
    rw [e, sv_newCond, this]
  case case13 =>
    intro w cs ih w' i h
    simp only [buildNorm, Option.map_eq_some_iff, Prod.exists] at h
    obtain ⟨w1, ids, h1, h2⟩ := h
    have := ih w1 ids h1
    have e : w' = (w1.newCond (.any ids)).1 := by rw [h2]
    rw [e, sv_newCond, this]
  case case18 =>
    intro w a b iha ihb w' i h
    simp only [buildNorm, Option.bind_eq_some_iff, Option.map_eq_some_iff, Prod.exists] at h
    obtain ⟨w1, ia, h1, w2, ib, h2, h3⟩ := h
    have e := congrArg Prod.fst h3
    simp only at e
    rw [← e, sv_newCond, ihb (w1, ia) w2 ib h2, iha w1 ia h1]
  case case19 =>
    intro w a b iha ihb w' i h
    simp only [buildNorm, Option.bind_eq_some_iff, Option.map_eq_some_iff, Prod.exists] at h
    obtain ⟨w1, ia, h1, w2, ib, h2, h3⟩ := h
    have e := congrArg Prod.fst h3
    simp only at e
    rw [← e, sv_newCond, ihb (w1, ia) w2 ib h2, iha w1 ia h1]
  case case21 =>
    intro w c cs ih2 ih1 w' is h
    simp only [buildNorms, Option.bind_eq_some_iff, Option.map_eq_some_iff, Prod.exists, Prod.mk.injEq] at h
    obtain ⟨w1, i1, h1, w2, is2, h2, rfl, _⟩ := h
    rw [ih1 w1 w2 is2 h2, ih2 w1 i1 h1]
  all_goals intros
  all_goals rename_i h
  all_goals (simp only [buildNorm, buildNorms, Option.map_eq_some_iff, Option.some.injEq, Prod.mk.injEq] at h)
  all_goals (try obtain ⟨_, _, h⟩ := h)
  all_goals (try split at h)
  all_goals (try simp only [Prod.mk.injEq] at h)
  all_goals (try (obtain ⟨rfl, _⟩ := h; rfl))
  all_goals (first | rfl | (subst_vars; rfl))

theorem sv_buildCond {w w' : World Rat} {c : CExpr Rat} {i : CondId} (h : w.buildCond c = some (w', i)) : w'.sigs = w.sigs := by
  unfold buildCond at h
  simp only [Option.bind_eq_some_iff] at h
  obtain ⟨_, _, h⟩ := h
  exact sv_buildNorm_both.1 _ _ _ _ h

/-- lemmas of functions that return `Option (World _)`: applied to a hypothesis `_ = some w'` (rules added below) -/
syntax "sx_hyp" : tactic
macro_rules | `(tactic| sx_hyp) => `(tactic| fail "no hypothesis lemma applies")

/-- backward chaining for goals `SExt s0 (f w ..).sigs` from a hypothesis `h : SExt s0 w.sigs` -/
syntax "sx " ident : tactic
macro_rules
  | `(tactic| sx $h:ident) => `(tactic| (repeat' (first
      | (with_reducible exact $h)
      | (with_reducible assumption)
      | (intro x; exact ⟨rfl, rfl, id⟩)
      | (intro x; exact ⟨rfl, rfl, fun _ => rfl⟩)
      | (simp only [svsimp, ite_self]; with_reducible exact $h)
      | (simp only [svsimp, ite_self]; with_reducible assumption)
      | (have hb := sv_buildCond ‹_ = some (_, _)›; simp only [svsimp, hb]; with_reducible exact $h)
      | (have hb := sv_buildCond ‹_ = some (_, _)›; rw [hb]; with_reducible exact $h)
      | (simp only [svsimp, ite_self])
      | (have hfst := congrArg Prod.fst ‹_ = (_, _)›; dsimp only at hfst; subst hfst)
      | (refine schedule_sext ‹_ = some _› ?_)
      | sx_hyp
      | sx_apply
      | split
      | (dsimp only; split))))

theorem retTo_sext {s0 : Array Sig} (a : ActId) (fs : List (Frame Rat)) (v : Val) (h0 : SExt s0 w.sigs) :
    SExt s0 (w.retTo a fs v).sigs := by unfold retTo; sx h0
theorem raiseTo_sext {s0 : Array Sig} (a : ActId) (fs : List (Frame Rat)) (e : ExnId) (h0 : SExt s0 w.sigs) :
    SExt s0 (w.raiseTo a fs e).sigs := by unfold raiseTo; sx h0
theorem raiseNew_sext {s0 : Array Sig} (a : ActId) (fs : List (Frame Rat)) (c : ExnCls) (h0 : SExt s0 w.sigs) :
    SExt s0 (w.raiseNew a fs c).sigs := by unfold raiseNew; sx h0
theorem hibernate_sext {s0 : Array Sig} (a : ActId) (fs : List (Frame Rat)) (h0 : SExt s0 w.sigs) :
    SExt s0 (w.hibernate a fs).sigs := by unfold hibernate; sx h0
theorem finishAct_sext {s0 : Array Sig} (a : ActId) (m : Mode) (h0 : SExt s0 w.sigs) :
    SExt s0 (w.finishAct a m).sigs := by unfold finishAct; sx h0
theorem awakeAll_sext {s0 : Array Sig} (c : CondId) (h0 : SExt s0 w.sigs) :
    SExt s0 (w.awakeAll c).sigs := by unfold awakeAll; sx h0
theorem awakeNext_sext {s0 : Array Sig} (c : CondId) (h0 : SExt s0 w.sigs) :
    SExt s0 ((w.awakeNext c).1).sigs := by unfold awakeNext; sx h0
theorem setDone_sext {s0 : Array Sig} (t : TaskId) (h0 : SExt s0 w.sigs) :
    SExt s0 (w.setDone t).sigs := by unfold setDone; sx h0
theorem childFinished_sext {s0 : Array Sig} (t : TaskId) (f : Bool) (h0 : SExt s0 w.sigs) :
    SExt s0 (w.childFinished t f).sigs := by unfold childFinished; sx h0
theorem taskFinalize_sext {s0 : Array Sig} (t : TaskId) (h0 : SExt s0 w.sigs) :
    SExt s0 (w.taskFinalize t).sigs := by unfold taskFinalize; sx h0
theorem newConcurrent_sext {s0 : Array Sig} (c : List ExnId) (h0 : SExt s0 w.sigs) :
    SExt s0 ((w.newConcurrent c).1).sigs := by unfold newConcurrent; sx h0
theorem propagateExceptions_sext {s0 : Array Sig} (s : ScopeId) (e : Option ExnId) (h0 : SExt s0 w.sigs) :
    SExt s0 ((w.propagateExceptions s e).1).sigs := by unfold propagateExceptions; sx h0
theorem condSubscribe_sext {s0 : Array Sig} (c : CondId) (a : ActId) (s : SigId) (h0 : SExt s0 w.sigs) :
    SExt s0 (w.condSubscribe c a s).sigs := by unfold condSubscribe; sx h0
theorem plainUnsubscribe_sext {s0 : Array Sig} (c : CondId) (a : ActId) (s : SigId) (h0 : SExt s0 w.sigs) :
    SExt s0 ((w.plainUnsubscribe c a s).1).sigs := by unfold plainUnsubscribe; sx h0
theorem unsubscribe_sext {s0 : Array Sig} (c : CondId) (a : ActId) (s : SigId) (h0 : SExt s0 w.sigs) :
    SExt s0 ((w.unsubscribe c a s).1).sigs := by unfold unsubscribe; sx h0
theorem doPostpone_sext {s0 : Array Sig} (a : ActId) (fs : List (Frame Rat)) (h0 : SExt s0 w.sigs) :
    SExt s0 (w.doPostpone a fs).sigs := by unfold doPostpone; sx h0

theorem ensureTrigger_sext {s0 : Array Sig} {c : CondId} {w w' : World Rat} (h : w.ensureTrigger c = some w')
    (h0 : SExt s0 w.sigs) : SExt s0 w'.sigs := by
  unfold ensureTrigger at h
  split at h
  · exact schedule_sext h (by sx h0)
  · cases h; exact h0
macro_rules | `(tactic| sx_hyp) => `(tactic| refine ensureTrigger_sext ‹_ = some _› ?_)

theorem subscribe_sext {s0 : Array Sig} {c : CondId} {a : ActId} {s : SigId} {w w' : World Rat} (h : w.subscribe c a s = some w')
    (h0 : SExt s0 w.sigs) : SExt s0 w'.sigs := by
  unfold subscribe at h
  split at h
  · cases h; sx h0
  · exact schedule_sext h (by sx h0)
  · split at h
    · cases h; sx h0
    · simp only [Option.map_eq_some_iff] at h
      obtain ⟨w1, h1, rfl⟩ := h
      have h2 := ensureTrigger_sext h1 h0
      sx h2
  · split at h
    · cases h; sx h0
    · split at h
      · cases h; sx h0
      · simp only [Option.map_eq_some_iff] at h
        obtain ⟨w1, h1, rfl⟩ := h
        have h2 := ensureTrigger_sext h1 h0
        sx h2
  · cases h; sx h0
macro_rules | `(tactic| sx_hyp) => `(tactic| refine subscribe_sext ‹_ = some _› ?_)

theorem doSuspend_sext {s0 : Array Sig} (a : ActId) (fs : List (Frame Rat)) (wh : When Rat) (h0 : SExt s0 w.sigs) :
    SExt s0 (w.doSuspend a fs wh).sigs := by unfold doSuspend; sx h0
theorem doNotifAwait_sext {s0 : Array Sig} (a : ActId) (fs : List (Frame Rat)) (c : CondId) (h0 : SExt s0 w.sigs) :
    SExt s0 (w.doNotifAwait a fs c).sigs := by unfold doNotifAwait; sx h0
theorem doCondAwait_sext {s0 : Array Sig} (a : ActId) (fs : List (Frame Rat)) (c : CondId) (h0 : SExt s0 w.sigs) :
    SExt s0 (w.doCondAwait a fs c).sigs := by unfold doCondAwait; sx h0
theorem lockRelease_sext {s0 : Array Sig} (l : Name) (h0 : SExt s0 w.sigs) :
    SExt s0 (w.lockRelease l).sigs := by unfold lockRelease; sx h0
theorem beginClose_sext {s0 : Array Sig} (a : ActId) (fs : List (Frame Rat)) (s : ScopeId) (o : Option ExnId) (g : Bool) (h0 : SExt s0 w.sigs) :
    SExt s0 (w.beginClose a fs s o g).sigs := by unfold beginClose; sx h0
theorem continueClose_sext {s0 : Array Sig} (a : ActId) (fs : List (Frame Rat)) (s : ScopeId) (todo : List TaskId) (r : ExnId) (v : Bool) (o : Option ExnId) (g : Bool) (h0 : SExt s0 w.sigs) :
    SExt s0 (w.continueClose a fs s todo r v o g).sigs := by unfold continueClose; sx h0
theorem queueGetEnter_sext {s0 : Array Sig} (a : ActId) (fs : List (Frame Rat)) (q : Name) (h0 : SExt s0 w.sigs) :
    SExt s0 (w.queueGetEnter a fs q).sigs := by unfold queueGetEnter; sx h0
theorem lockAcquired_sext {s0 : Array Sig} (a : ActId) (fs : List (Frame Rat)) (l : Name) (c : LockCont Rat) (h0 : SExt s0 w.sigs) :
    SExt s0 (w.lockAcquired a fs l c).sigs := by unfold lockAcquired; sx h0
theorem acquireLock_sext {s0 : Array Sig} (a : ActId) (fs : List (Frame Rat)) (l : Name) (c : LockCont Rat) (h0 : SExt s0 w.sigs) :
    SExt s0 (w.acquireLock a fs l c).sigs := by unfold acquireLock; sx h0
theorem setLevels_sext {s0 : Array Sig} (r : Name) (lv : List Int) (h0 : SExt s0 w.sigs) :
    SExt s0 (w.setLevels r lv).sigs := by unfold setLevels; sx h0
theorem setTrackedValue_sext {s0 : Array Sig} (x : Name) (v : Int) (h0 : SExt s0 w.sigs) :
    SExt s0 (w.setTrackedValue x v).sigs := by unfold setTrackedValue; sx h0
theorem throttle_sext {s0 : Array Sig} (p : Name) (h0 : SExt s0 w.sigs) :
    SExt s0 (w.throttle p).sigs := by unfold throttle; sx h0
theorem pipeFinish_sext {s0 : Array Sig} (p : Name) (i : Nat) (h0 : SExt s0 w.sigs) :
    SExt s0 (w.pipeFinish p i).sigs := by unfold pipeFinish; sx h0
theorem pipeWindowStart_sext {s0 : Array Sig} (a : ActId) (fs : List (Frame Rat)) (p : Name) (i : Nat) (t1 t2 t3 : Rat) (h0 : SExt s0 w.sigs) :
    SExt s0 (w.pipeWindowStart a fs p i t1 t2 t3).sigs := by unfold pipeWindowStart; sx h0
theorem tickNext_sext {s0 : Array Sig} (a : ActId) (fs : List (Frame Rat)) (b : Bool) (p l : Rat) (n : Nat) (body : List (Stmt Rat)) (h0 : SExt s0 w.sigs) :
    SExt s0 (w.tickNext a fs b p l n body).sigs := by unfold tickNext; sx h0
theorem borrowEnter_sext {s0 : Array Sig} (a : ActId) (fs : List (Frame Rat)) (r : Name) (am : List Int) (bind : Name) (body : List (Stmt Rat)) (c : Bool) (h0 : SExt s0 w.sigs) :
    SExt s0 (w.borrowEnter a fs r am bind body c).sigs := by unfold borrowEnter; sx h0
theorem flagForceSet_sext {s0 : Array Sig} (c : CondId) (h0 : SExt s0 w.sigs) :
    SExt s0 (w.flagForceSet c).sigs := by unfold flagForceSet; sx h0
theorem pyScopeDo_sext {s0 : Array Sig} (sid : ScopeId) (prog : List (Stmt Rat)) (after : Option Rat) (h0 : SExt s0 w.sigs) :
    SExt s0 ((w.pyScopeDo sid prog after).1).sigs := by unfold pyScopeDo; sx h0
theorem pySchedule_sext {s0 : Array Sig} (prog : List (Stmt Rat)) (d : Option Rat) (h0 : SExt s0 w.sigs) :
    SExt s0 ((w.pySchedule prog d).1).sigs := by unfold pySchedule; sx h0
theorem pyTrigger_sext {s0 : Array Sig} (e : Nat) (h0 : SExt s0 w.sigs) :
    SExt s0 ((w.pyTrigger e).1).sigs := by unfold pyTrigger; sx h0
theorem pySetValue_sext {s0 : Array Sig} (e : Nat) (v : Int × Option ExnId) (cv : List Nat) (h0 : SExt s0 w.sigs) :
    SExt s0 ((w.pySetValue e v cv).1).sigs := by unfold pySetValue; sx h0
theorem pyInterrupt_sext {s0 : Array Sig} (p : Nat) (c : Int) (h0 : SExt s0 w.sigs) :
    SExt s0 (w.pyInterrupt p c).sigs := by unfold pyInterrupt; sx h0
theorem pySync_sext {s0 : Array Sig} (a : ActId) (lbl : Int) (i : PyInstr Rat) (h0 : SExt s0 w.sigs) :
    SExt s0 ((w.pySync a lbl i).1).sigs := by unfold pySync; sx h0
theorem pyWaitInterruptible_sext {s0 : Array Sig} (a : ActId) (fs : List (Frame Rat)) (p e : Nat) (h0 : SExt s0 w.sigs) :
    SExt s0 (w.pyWaitInterruptible a fs p e).sigs := by unfold pyWaitInterruptible; sx h0
theorem pyResume_sext {s0 : Array Sig} (a : ActId) (fs : List (Frame Rat)) (p : Nat) (what : List Int) (e : Option ExnId) (h0 : SExt s0 w.sigs) :
    SExt s0 (w.pyResume a fs p what e).sigs := by unfold pyResume; sx h0
theorem pyCheckContinue_sext {s0 : Array Sig} (a : ActId) (fs : List (Frame Rat)) (e : Nat) (un : List Nat) (obs : Nat) (h0 : SExt s0 w.sigs) :
    SExt s0 (w.pyCheckContinue a fs e un obs).sigs := by unfold pyCheckContinue; sx h0
theorem pyCondFail_sext {s0 : Array Sig} (a : ActId) (fs : List (Frame Rat)) (e m : Nat) (h0 : SExt s0 w.sigs) :
    SExt s0 (w.pyCondFail a fs e m).sigs := by unfold pyCondFail; sx h0
theorem pyGenStep_sext {s0 : Array Sig} (a : ActId) (fs : List (Frame Rat)) (p : Nat) (h0 : SExt s0 w.sigs) :
    SExt s0 (w.pyGenStep a fs p).sigs := by unfold pyGenStep; sx h0

end World
end USim.Machine
