import USimModel.Lemmas.KView
import USimModel.Lemmas.OViewAttr
/-!
# The object view of the whole machine: what is said once about an object stays said

Five tables of the world hold objects whose *history* the statements of C04, C05, C10, C11 and C18 speak about:

* `w.exns` - exception objects.  They are never modified: "the very exception its body raised", "exactly the exception
  objects with which children failed" (C05), "re-raises .. unchanged" (C15) presuppose this.
* `w.scopes` - a scope keeps its identity; its list of child failures is append-only (C05: "in order of occurrence");
  once it has been closed to new tasks (`_interruptable = False`, the first thing `Scope._close_scope` does) it stays
  closed and **never gains a child again** - its lists of children only shrink (C04: "spawning into a scope that has
  ended is refused").
* `w.queues` - a closed queue stays closed and its buffer only shrinks (C10: "`put` on a closed queue .. stores nothing").
* `w.chans` - a closed channel stays closed (C11).
* `w.py.events` - once an event of the SimPy layer has a value, that value never changes (C18: "triggered at most once").

Function by function (the inventory of `Lemmas/KView.lean` a sixth time) this file shows that code inside an activation
respects all of this (`OExt`).  `Props/MachineObjects.lean` lifts it to every run of every program.
-/
set_option linter.unusedVariables false
set_option linter.unusedSimpArgs false
namespace USim.Machine
open TimeLike USim.Prim.Kernel Lean

/-- the five object tables at some moment -/
structure OV where
  exns : Array ExnCls
  scopes : Array Scope
  queues : Array Queue
  chans : Array Chan
  events : Array PyEvent

/-- a table only grew and every old entry is related to what it was -/
def ArrExt {α : Type} [Inhabited α] (R : α → α → Prop) (a0 a : Array α) : Prop :=
  a0.size ≤ a.size ∧ ∀ i, i < a0.size → R (a0.getD i default) (a.getD i default)

namespace ArrExt
variable {α : Type} [Inhabited α] {R : α → α → Prop}

theorem refl (hr : ∀ x, R x x) (a : Array α) : ArrExt R a a := ⟨Nat.le_refl _, fun _ _ => hr _⟩

theorem trans (ht : ∀ x y z, R x y → R y z → R x z) {a0 a1 a2 : Array α} (h1 : ArrExt R a0 a1) (h2 : ArrExt R a1 a2) :
    ArrExt R a0 a2 :=
  ⟨Nat.le_trans h1.1 h2.1, fun i hi => ht _ _ _ (h1.2 i hi) (h2.2 i (Nat.lt_of_lt_of_le hi h1.1))⟩

theorem push {a0 a : Array α} (x : α) (h : ArrExt R a0 a) : ArrExt R a0 (a.push x) := by
  refine ⟨Nat.le_trans h.1 (by simp), ?_⟩
  intro i hi
  have : (a.push x).getD i default = a.getD i default := by
    rw [Array.getD_eq_getD_getElem?, Array.getD_eq_getD_getElem?, Array.getElem?_push]
    simp [Nat.ne_of_lt (Nat.lt_of_lt_of_le hi h.1)]
  rw [this]; exact h.2 i hi

/-- the modified entry is related to what it was just before -/
theorem modify' (ht : ∀ x y z, R x y → R y z → R x z) {a0 a : Array α} (j : Nat) (f : α → α)
    (hf : R (a.getD j default) (f (a.getD j default))) (h : ArrExt R a0 a) : ArrExt R a0 (a.modify j f) := by
  refine ⟨by simpa using h.1, ?_⟩
  intro i hi
  have k := h.2 i hi
  by_cases hij : j = i
  · subst hij
    have : (a.modify j f).getD j default = f (a.getD j default) := by
      rw [Array.getD_eq_getD_getElem?, Array.getD_eq_getD_getElem?, Array.getElem?_modify]
      simp [Nat.lt_of_lt_of_le hi h.1]
    rw [this]; exact ht _ _ _ k hf
  · have : (a.modify j f).getD i default = a.getD i default := by
      rw [Array.getD_eq_getD_getElem?, Array.getD_eq_getD_getElem?, Array.getElem?_modify]
      simp [hij]
    rw [this]; exact k

theorem modify (ht : ∀ x y z, R x y → R y z → R x z) {a0 a : Array α} (j : Nat) (f : α → α)
    (hf : ∀ x, R x (f x)) (h : ArrExt R a0 a) : ArrExt R a0 (a.modify j f) := modify' ht j f (hf _) h
end ArrExt

/-- a scope stays the same scope (same owner, and an `until` scope listens to the same notification with the same interrupt),
its failures are append-only; closed to new tasks means closed for ever -/
def ScopeOk (x y : Scope) : Prop :=
  y.bodyDone = x.bodyDone ∧ y.cancelSelf = x.cancelSelf ∧ y.name = x.name ∧ y.inst = x.inst ∧
  y.activity = x.activity ∧ y.notification = x.notification ∧ y.interrupt = x.interrupt ∧
  x.failures <+: y.failures ∧
  (x.interruptable = false → y.interruptable = false ∧ y.children.Sublist x.children ∧
    y.volatileChildren.Sublist x.volatileChildren)

/-- a queue stays the same queue; closed means closed for ever, and nothing is added to the buffer any more; the buffer is
FIFO: whatever happened, it is what was there minus some items at the *front* plus some items at the *back* -/
def QueueOk (x y : Queue) : Prop :=
  y.notif = x.notif ∧ y.mutex = x.mutex ∧ (x.closed = true → y.closed = true ∧ y.buffer <:+ x.buffer) ∧
  (∃ k ys, y.buffer = x.buffer.drop k ++ ys)

def ChanOk (x y : Chan) : Prop := y.notif = x.notif ∧ (x.closed = true → y.closed = true)

/-- an event stays the same event; a value, once there, is the value for ever; once its callbacks have been processed
(`callbacks = None`) none is ever armed again -/
def EventOk (x y : PyEvent) : Prop :=
  y.flag = x.flag ∧ y.kind = x.kind ∧ (x.value.isSome = true → y.value = x.value) ∧ (x.callbacks = none → y.callbacks = none)

theorem ScopeOk.refl (x : Scope) : ScopeOk x x :=
  ⟨rfl, rfl, rfl, rfl, rfl, rfl, rfl, List.prefix_refl _, fun h => ⟨h, List.Sublist.refl _, List.Sublist.refl _⟩⟩
theorem ScopeOk.trans (x y z : Scope) (h1 : ScopeOk x y) (h2 : ScopeOk y z) : ScopeOk x z := by
  obtain ⟨a1, a2, a3, a4, a7, a8, a9, a5, a6⟩ := h1
  obtain ⟨b1, b2, b3, b4, b7, b8, b9, b5, b6⟩ := h2
  refine ⟨b1.trans a1, b2.trans a2, b3.trans a3, b4.trans a4, b7.trans a7, b8.trans a8, b9.trans a9,
    List.IsPrefix.trans a5 b5, fun h => ?_⟩
  have c := a6 h
  have d := b6 c.1
  exact ⟨d.1, d.2.1.trans c.2.1, d.2.2.trans c.2.2⟩
theorem QueueOk.refl (x : Queue) : QueueOk x x := ⟨rfl, rfl, fun h => ⟨h, List.suffix_refl _⟩, ⟨0, [], by simp⟩⟩
theorem fifo_trans {α} (x y z : List α) (h1 : ∃ k ys, y = x.drop k ++ ys) (h2 : ∃ k zs, z = y.drop k ++ zs) :
    ∃ k zs, z = x.drop k ++ zs := by
  obtain ⟨k1, ys, rfl⟩ := h1
  obtain ⟨k2, zs, rfl⟩ := h2
  refine ⟨k1 + k2, ys.drop (k2 - (x.drop k1).length) ++ zs, ?_⟩
  rw [List.drop_append, List.drop_drop, List.append_assoc]

theorem QueueOk.trans (x y z : Queue) (h1 : QueueOk x y) (h2 : QueueOk y z) : QueueOk x z := by
  obtain ⟨a1, a2, a3, a4⟩ := h1
  obtain ⟨b1, b2, b3, b4⟩ := h2
  refine ⟨b1.trans a1, b2.trans a2, fun h => ?_, fifo_trans _ _ _ a4 b4⟩
  have c := a3 h
  have d := b3 c.1
  exact ⟨d.1, List.IsSuffix.trans d.2 c.2⟩
theorem ChanOk.refl (x : Chan) : ChanOk x x := ⟨rfl, fun h => h⟩
theorem ChanOk.trans (x y z : Chan) (h1 : ChanOk x y) (h2 : ChanOk y z) : ChanOk x z :=
  ⟨h2.1.trans h1.1, fun h => h2.2 (h1.2 h)⟩
theorem EventOk.refl (x : PyEvent) : EventOk x x := ⟨rfl, rfl, fun _ => rfl, fun h => h⟩
theorem EventOk.trans (x y z : PyEvent) (h1 : EventOk x y) (h2 : EventOk y z) : EventOk x z := by
  obtain ⟨a1, a2, a3, a4⟩ := h1
  obtain ⟨b1, b2, b3, b4⟩ := h2
  refine ⟨b1.trans a1, b2.trans a2, fun h => ?_, fun h => b4 (a4 h)⟩
  have c := a3 h
  have d := b3 (by rw [c]; exact h)
  exact d.trans c

/-- the five tables `e s q c p` extend the tables `o0` -/
structure OExt (o0 : OV) (e : Array ExnCls) (s : Array Scope) (q : Array Queue) (c : Array Chan) (p : Array PyEvent) : Prop where
  exns : ArrExt (fun x y => y = x) o0.exns e
  scopes : ArrExt ScopeOk o0.scopes s
  queues : ArrExt QueueOk o0.queues q
  chans : ArrExt ChanOk o0.chans c
  events : ArrExt EventOk o0.events p

/-- `OX(o0, w)`: the object tables of the world `w` extend `o0` -/
macro "OX(" o:term ", " x:term ")" : term =>
  `(OExt $o ($x).exns ($x).scopes ($x).queues ($x).chans ($x).py.events)

namespace OExt
variable {o0 : OV} {e : Array ExnCls} {s : Array Scope} {q : Array Queue} {c : Array Chan} {p : Array PyEvent}

theorem refl' (e : Array ExnCls) (s : Array Scope) (q : Array Queue) (c : Array Chan) (p : Array PyEvent) :
    OExt ⟨e, s, q, c, p⟩ e s q c p :=
  ⟨ArrExt.refl (fun _ => rfl) _, ArrExt.refl ScopeOk.refl _, ArrExt.refl QueueOk.refl _, ArrExt.refl ChanOk.refl _,
   ArrExt.refl EventOk.refl _⟩

theorem trans' {e1 : Array ExnCls} {s1 : Array Scope} {q1 : Array Queue} {c1 : Array Chan} {p1 : Array PyEvent}
    (h1 : OExt o0 e s q c p) (h2 : OExt ⟨e, s, q, c, p⟩ e1 s1 q1 c1 p1) : OExt o0 e1 s1 q1 c1 p1 :=
  ⟨ArrExt.trans (fun _ _ _ a b => b.trans a) h1.exns h2.exns, ArrExt.trans ScopeOk.trans h1.scopes h2.scopes,
   ArrExt.trans QueueOk.trans h1.queues h2.queues, ArrExt.trans ChanOk.trans h1.chans h2.chans,
   ArrExt.trans EventOk.trans h1.events h2.events⟩

theorem pushExn (x : ExnCls) (h : OExt o0 e s q c p) : OExt o0 (e.push x) s q c p := { h with exns := h.exns.push x }
theorem pushScope (x : Scope) (h : OExt o0 e s q c p) : OExt o0 e (s.push x) q c p := { h with scopes := h.scopes.push x }
theorem pushQueue (x : Queue) (h : OExt o0 e s q c p) : OExt o0 e s (q.push x) c p := { h with queues := h.queues.push x }
theorem pushChan (x : Chan) (h : OExt o0 e s q c p) : OExt o0 e s q (c.push x) p := { h with chans := h.chans.push x }
theorem pushEvent (x : PyEvent) (h : OExt o0 e s q c p) : OExt o0 e s q c (p.push x) := { h with events := h.events.push x }

theorem modScope (j : Nat) (f : Scope → Scope) (hf : ∀ x, ScopeOk x (f x)) (h : OExt o0 e s q c p) :
    OExt o0 e (s.modify j f) q c p := { h with scopes := h.scopes.modify ScopeOk.trans j f hf }
theorem modScope' (j : Nat) (f : Scope → Scope) (hf : ScopeOk (s.getD j default) (f (s.getD j default)))
    (h : OExt o0 e s q c p) : OExt o0 e (s.modify j f) q c p := { h with scopes := h.scopes.modify' ScopeOk.trans j f hf }
theorem modQueue (j : Nat) (f : Queue → Queue) (hf : ∀ x, QueueOk x (f x)) (h : OExt o0 e s q c p) :
    OExt o0 e s (q.modify j f) c p := { h with queues := h.queues.modify QueueOk.trans j f hf }
theorem modQueue' (j : Nat) (f : Queue → Queue) (hf : QueueOk (q.getD j default) (f (q.getD j default)))
    (h : OExt o0 e s q c p) : OExt o0 e s (q.modify j f) c p := { h with queues := h.queues.modify' QueueOk.trans j f hf }
theorem modChan (j : Nat) (f : Chan → Chan) (hf : ∀ x, ChanOk x (f x)) (h : OExt o0 e s q c p) :
    OExt o0 e s q (c.modify j f) p := { h with chans := h.chans.modify ChanOk.trans j f hf }
theorem modEvent (j : Nat) (f : PyEvent → PyEvent) (hf : ∀ x, EventOk x (f x)) (h : OExt o0 e s q c p) :
    OExt o0 e s q c (p.modify j f) := { h with events := h.events.modify EventOk.trans j f hf }
theorem modEvent' (j : Nat) (f : PyEvent → PyEvent) (hf : EventOk (p.getD j default) (f (p.getD j default)))
    (h : OExt o0 e s q c p) : OExt o0 e s q c (p.modify j f) := { h with events := h.events.modify' EventOk.trans j f hf }
end OExt

namespace World
variable (w : World Rat)

/-- the object tables of a world -/
def ov (w : World Rat) : OV := ⟨w.exns, w.scopes, w.queues, w.chans, w.py.events⟩

/-- `ovlemma name binders : T` states that `T` has the five object tables of `w` (five simp lemmas, by `rfl`) -/
syntax "ovlemma " ident bracketedBinder* " : " term : command
macro_rules
  | `(ovlemma $n:ident $bs:bracketedBinder* : $t:term) => do
    let n1 := mkIdent (n.getId.appendAfter "_exns")
    let n2 := mkIdent (n.getId.appendAfter "_scopes")
    let n3 := mkIdent (n.getId.appendAfter "_queues")
    let n4 := mkIdent (n.getId.appendAfter "_chans")
    let n5 := mkIdent (n.getId.appendAfter "_events")
    let w := mkIdent `w
    `(@[simp, ovsimp] theorem $n1 $bs:bracketedBinder* : ($t).exns = ($w).exns := rfl
      @[simp, ovsimp] theorem $n2 $bs:bracketedBinder* : ($t).scopes = ($w).scopes := rfl
      @[simp, ovsimp] theorem $n3 $bs:bracketedBinder* : ($t).queues = ($w).queues := rfl
      @[simp, ovsimp] theorem $n4 $bs:bracketedBinder* : ($t).chans = ($w).chans := rfl
      @[simp, ovsimp] theorem $n5 $bs:bracketedBinder* : ($t).py.events = ($w).py.events := rfl)

/-- the same for functions defined by a case distinction whose branches are all `rfl` -/
syntax "ovlemmaSplit " ident bracketedBinder* " : " term " unfolding " ident : command
macro_rules
  | `(ovlemmaSplit $n:ident $bs:bracketedBinder* : $t:term unfolding $f:ident) => do
    let n1 := mkIdent (n.getId.appendAfter "_exns")
    let n2 := mkIdent (n.getId.appendAfter "_scopes")
    let n3 := mkIdent (n.getId.appendAfter "_queues")
    let n4 := mkIdent (n.getId.appendAfter "_chans")
    let n5 := mkIdent (n.getId.appendAfter "_events")
    let w := mkIdent `w
    `(@[simp, ovsimp] theorem $n1 $bs:bracketedBinder* : ($t).exns = ($w).exns := by unfold $f; split <;> rfl
      @[simp, ovsimp] theorem $n2 $bs:bracketedBinder* : ($t).scopes = ($w).scopes := by unfold $f; split <;> rfl
      @[simp, ovsimp] theorem $n3 $bs:bracketedBinder* : ($t).queues = ($w).queues := by unfold $f; split <;> rfl
      @[simp, ovsimp] theorem $n4 $bs:bracketedBinder* : ($t).chans = ($w).chans := by unfold $f; split <;> rfl
      @[simp, ovsimp] theorem $n5 $bs:bracketedBinder* : ($t).py.events = ($w).py.events := by unfold $f; split <;> rfl)

/-! ### primitives that touch none of the five tables -/
ovlemma ov_setSig (s : SigId) (f : Sig → Sig) : w.setSig s f
ovlemma ov_setCond (s : CondId) (f : Cond Rat → Cond Rat) : w.setCond s f
ovlemma ov_setAct (s : ActId) (f : Activity Rat → Activity Rat) : w.setAct s f
ovlemma ov_setFrames (a : ActId) (fs : List (Frame Rat)) : w.setFrames a fs
ovlemma ov_setTask (s : TaskId) (f : Task → Task) : w.setTask s f
ovlemma ov_newAct (fs : List (Frame Rat)) (r : Bool) (l : Int) : (w.newAct fs r l).1
ovlemma ov_newCond (k : CondKind Rat) : (w.newCond k).1
ovlemma ov_revoke (s : SigId) : w.revoke s
ovlemma ov_emit (a : ActId) (t : String) (l : List Int) : w.emit a t l
ovlemma ov_emitAs (a : ActId) (lb : Int) (t : String) (l : List Int) : w.emitAs a lb t l
ovlemma ov_setPyProc (e : Nat) (f : PyProc Rat → PyProc Rat) : w.setPyProc e f
ovlemma ov_pyBind (x : Name) (e : Nat) : w.pyBind x e
ovlemma ov_newFlag : w.newFlag.1
@[simp] theorem ov_newCond (k : CondKind Rat) : ((w.newCond k).1).ov = w.ov := rfl
ovlemmaSplit ov_setMode (m : Mode) : w.setMode m unfolding setMode
ovlemmaSplit ov_emitScope (a : ActId) (s : ScopeId) (t : String) (l : List Int) : w.emitScope a s t l unfolding emitScope
ovlemmaSplit ov_scheduleNow (a : ActId) (s : Option SigId) : w.scheduleNow a s unfolding scheduleNow
theorem oext_foldl {α} {o0 : OV} (f : World Rat → α → World Rat)
    (h : ∀ w x, OX(o0, w) → OX(o0, (f w x))) (l : List α) :
    ∀ (w : World Rat), OX(o0, w) → OX(o0, (l.foldl f w)) := by
  induction l with
  | nil => intro w h0; exact h0
  | cons x xs ih => intro w h0; exact ih _ (h w x h0)

theorem oext_foldl_pair {α β} {o0 : OV} (f : World Rat × β → α → World Rat × β)
    (h : ∀ p x, OX(o0, p.1) → OX(o0, (f p x).1)) (l : List α) :
    ∀ (p : World Rat × β), OX(o0, p.1) → OX(o0, (l.foldl f p).1) := by
  induction l with
  | nil => intro w h0; exact h0
  | cons x xs ih => intro w h0; exact ih _ (h w x h0)

/-- one backward step: the lemma `f_oext` of the function at the head of the world term (folds over worlds included) -/
elab "ox_apply" : tactic => do
  let g ← Lean.Elab.Tactic.getMainGoal
  let t := (← Lean.instantiateMVars (← g.getType)).cleanupAnnotations
  let some x := t.getAppArgs.back? | throwError "ox_apply: not an application"
  let some x := x.cleanupAnnotations.getAppArgs.back? | throwError "ox_apply: no world term"
  let some x := x.cleanupAnnotations.getAppArgs.back? | throwError "ox_apply: no world term"
  let x := x.cleanupAnnotations
  let x := if x.isAppOf ``Prod.fst then (x.getAppArgs.back?.getD x).cleanupAnnotations else x
  match x.getAppFn with
  | .const n _ =>
    if n == ``List.foldl then
      Lean.Elab.Tactic.evalTactic (← `(tactic| (refine oext_foldl _ (fun w x h => ?_) _ _ ?_ <;> try (dsimp only))))
      return
    let lem := n.appendAfter "_oext"
    if (← Lean.getEnv).contains lem then
      Lean.Elab.Tactic.evalTactic (← `(tactic| apply $(Lean.mkIdent lem)))
    else throwError "ox_apply: no lemma {lem}"
  | _ => throwError "ox_apply: head is not a constant"

/-! ### the writers of the five tables -/
theorem newExn_oext {o0 : OV} (c : ExnCls) (h0 : OX(o0, w)) : OX(o0, (w.newExn c).1) := OExt.pushExn _ h0

theorem newSig_oext {o0 : OV} (k : SigKind) (h0 : OX(o0, w)) : OX(o0, (w.newSig k).1) := by
  unfold newSig; exact OExt.pushExn _ h0

theorem setScope_oext {o0 : OV} (s : ScopeId) (f : Scope → Scope) (hf : ScopeOk (w.scopes.getD s default) (f (w.scopes.getD s default)))
    (h0 : OX(o0, w)) : OX(o0, (w.setScope s f)) := OExt.modScope' s f hf h0

theorem setPyEv_oext {o0 : OV} (e : Nat) (f : PyEvent → PyEvent)
    (hf : EventOk (w.py.events.getD e default) (f (w.py.events.getD e default))) (h0 : OX(o0, w)) :
    OX(o0, (w.setPyEv e f)) := OExt.modEvent' e f hf h0

theorem pyNewEvent_oext {o0 : OV} (k : PyKind) (h0 : OX(o0, w)) : OX(o0, (w.pyNewEvent k).1) := by
  unfold pyNewEvent
  exact OExt.pushEvent _ (by simpa using h0)

theorem schedule_ov {a : ActId} {s : Option SigId} {wh : When Rat} {w w' : World Rat}
    (h : w.schedule a s wh = some w') : w'.ov = w.ov := by
  have hm : ∀ (w1 : World Rat), w1.ov = w.ov → (match s with
      | some s => w1.setSig s (fun x => { x with scheduled := true })
      | none => w1).ov = w.ov := by
    intro w1 h1
    cases s with
    | none => exact h1
    | some s => exact h1
  unfold schedule at h
  cases wh with
  | now => simp only [Option.some.injEq] at h; subst h; exact hm _ rfl
  | delay d =>
    simp only at h
    split at h
    · exact absurd h (by simp)
    · simp only [Option.some.injEq] at h; subst h; exact hm _ rfl
  | at_ t =>
    simp only at h
    split at h
    · exact absurd h (by simp)
    · simp only [Option.some.injEq] at h; subst h; exact hm _ rfl

theorem oext_of_ov {o0 : OV} {w w' : World Rat} (h : w'.ov = w.ov) (h0 : OX(o0, w)) : OX(o0, w') := by
  have e1 : w'.exns = w.exns := congrArg OV.exns h
  have e2 : w'.scopes = w.scopes := congrArg OV.scopes h
  have e3 : w'.queues = w.queues := congrArg OV.queues h
  have e4 : w'.chans = w.chans := congrArg OV.chans h
  have e5 : w'.py.events = w.py.events := congrArg OV.events h
  rw [e1, e2, e3, e4, e5]; exact h0

theorem schedule_oext {o0 : OV} {a : ActId} {s : Option SigId} {wh : When Rat} {w w' : World Rat}
    (h : w.schedule a s wh = some w') (h0 : OX(o0, w)) : OX(o0, w') := by
  exact oext_of_ov (schedule_ov h) h0

theorem ov_buildNorm_both :
    (∀ (w : World Rat) (c : CExpr Rat), ∀ w' i, w.buildNorm c = some (w', i) → w'.ov = w.ov) ∧
    (∀ (w : World Rat) (cs : List (CExpr Rat)), ∀ w' is, w.buildNorms cs = some (w', is) → w'.ov = w.ov) := by
  apply World.buildNorm.mutual_induct
  case case4 =>
    intro w c h1 h2 w' i h
    cases c <;> first | (exact (h1 _ rfl).elim) | (exact (h2 _ rfl).elim) | (simp [buildNorm] at h)
  case case12 =>
    intro w cs ih w' i h
    simp only [buildNorm, Option.map_eq_some_iff, Prod.exists] at h
    obtain ⟨w1, ids, h1, h2⟩ := h
    have := ih w1 ids h1
    have e : w' = (w1.newCond (.all ids)).1 := by rw [h2]
    rw [e, ov_newCond, this]
  case case13 =>
    intro w cs ih w' i h
    simp only [buildNorm, Option.map_eq_some_iff, Prod.exists] at h
    obtain ⟨w1, ids, h1, h2⟩ := h
    have := ih w1 ids h1
    have e : w' = (w1.newCond (.any ids)).1 := by rw [h2]
    rw [e, ov_newCond, this]
  case case18 =>
    intro w a b iha ihb w' i h
    simp only [buildNorm, Option.bind_eq_some_iff, Option.map_eq_some_iff, Prod.exists] at h
    obtain ⟨w1, ia, h1, w2, ib, h2, h3⟩ := h
    have e := congrArg Prod.fst h3
    simp only at e
    rw [← e, ov_newCond, ihb (w1, ia) w2 ib h2, iha w1 ia h1]
  case case19 =>
    intro w a b iha ihb w' i h
    simp only [buildNorm, Option.bind_eq_some_iff, Option.map_eq_some_iff, Prod.exists] at h
    obtain ⟨w1, ia, h1, w2, ib, h2, h3⟩ := h
    have e := congrArg Prod.fst h3
    simp only at e
    rw [← e, ov_newCond, ihb (w1, ia) w2 ib h2, iha w1 ia h1]
  case case21 =>
    intro w c cs ih2 ih1 w' is h
    simp only [buildNorms, Option.bind_eq_some_iff, Option.map_eq_some_iff, Prod.exists, Prod.mk.injEq] at h
    obtain ⟨w1, i1, h1, w2, is2, h2, rfl, _⟩ := h
    rw [ih1 w1 w2 is2 h2, ih2 w1 i1 h1]
  all_goals intros
  all_goals rename_i h
  all_goals (simp only [buildNorm, buildNorms, Option.map_eq_some_iff, Option.some.injEq, Prod.mk.injEq] at h)
  all_goals (try obtain ⟨_, _, h⟩ := h)
  all_goals (try split at h)
  all_goals (try simp only [Prod.mk.injEq] at h)
  all_goals (try (obtain ⟨rfl, _⟩ := h; rfl))
  all_goals (first | rfl | (subst_vars; rfl))

theorem ov_buildCond {w w' : World Rat} {c : CExpr Rat} {i : CondId} (h : w.buildCond c = some (w', i)) : w'.ov = w.ov := by
  unfold buildCond at h
  simp only [Option.bind_eq_some_iff] at h
  obtain ⟨_, _, h⟩ := h
  exact ov_buildNorm_both.1 _ _ _ _ h

/-- lemmas of functions that return `Option (World _)`: applied to a hypothesis `_ = some w'` (rules added below) -/
syntax "ox_hyp" : tactic
macro_rules | `(tactic| ox_hyp) => `(tactic| fail "no hypothesis lemma applies")

/-- closes the side goals `∀ x, ScopeOk x (f x)` etc. of the writers for the updates that occur in the machine -/
syntax "ok_close" : tactic
macro_rules
  | `(tactic| ok_close) => `(tactic| ((try intro x); first
      | exact ScopeOk.refl _
      | exact ⟨rfl, rfl, rfl, rfl, rfl, rfl, rfl, List.prefix_refl _, fun _ => ⟨rfl, List.Sublist.refl _, List.Sublist.refl _⟩⟩
      | exact ⟨rfl, rfl, rfl, rfl, rfl, rfl, rfl, List.prefix_append _ _, fun h => ⟨h, List.Sublist.refl _, List.Sublist.refl _⟩⟩
      | exact ⟨rfl, rfl, rfl, rfl, rfl, rfl, rfl, List.prefix_refl _, fun h => ⟨h, List.erase_sublist, List.Sublist.refl _⟩⟩
      | exact ⟨rfl, rfl, rfl, rfl, rfl, rfl, rfl, List.prefix_refl _, fun h => ⟨h, List.Sublist.refl _, List.erase_sublist⟩⟩
      | exact QueueOk.refl _
      | exact ⟨rfl, rfl, fun _ => ⟨rfl, List.suffix_refl _⟩, ⟨0, [], by simp⟩⟩
      | exact ChanOk.refl _
      | exact ⟨rfl, fun h => h⟩
      | exact ⟨rfl, fun _ => rfl⟩
      | exact EventOk.refl _
      | exact ⟨rfl, rfl, fun _ => rfl, fun h => h⟩
      | exact ⟨rfl, rfl, fun _ => rfl, fun _ => rfl⟩
      | (refine ⟨rfl, rfl, rfl, rfl, rfl, rfl, rfl, List.prefix_refl _, fun h => ?_⟩; exfalso; (try simp only [ovsimp] at h);
         simp_all [World.scope]; done)
      | (refine ⟨rfl, rfl, fun h => ?_, fun h => h⟩; exfalso; (try simp only [ovsimp] at h); simp_all [World.pyEv]; done)
      | (refine ⟨rfl, rfl, fun _ => rfl, fun h => ?_⟩; exfalso; (try simp only [ovsimp] at h); simp_all [World.pyEv]; done)
      | (refine ⟨rfl, rfl, fun h => ?_, ⟨0, _, rfl⟩⟩; exfalso; (try simp only [ovsimp] at h); simp_all; done)
      | (refine ⟨rfl, rfl, fun h => ⟨h, ?_⟩, ⟨1, [], ?_⟩⟩ <;> (try simp only [ovsimp]) <;> simp_all <;> done)))

/-- backward chaining for goals `OX(o0, (f w ..))` from a hypothesis `h : OX(o0, w)` -/
syntax "ox " ident : tactic
macro_rules
  | `(tactic| ox $h:ident) => `(tactic| (repeat' (first
      | (with_reducible exact $h)
      | (with_reducible assumption)
      | ok_close
      | (simp only [ovsimp, ite_self]; with_reducible exact $h)
      | (simp only [ovsimp, ite_self]; with_reducible assumption)
      | (refine oext_of_ov (ov_buildCond ‹_ = some (_, _)›) ?_)
      | (simp only [ovsimp, ite_self])
      | (have hfst := congrArg Prod.fst ‹_ = (_, _)›; dsimp only at hfst; subst hfst)
      | (refine schedule_oext ‹_ = some _› ?_)
      | ox_hyp
      | (with_reducible refine OExt.pushExn _ ?_)
      | (with_reducible refine OExt.pushScope _ ?_)
      | (with_reducible refine OExt.pushQueue _ ?_)
      | (with_reducible refine OExt.pushChan _ ?_)
      | (with_reducible refine OExt.pushEvent _ ?_)
      | (with_reducible refine OExt.modQueue' _ _ ?_ ?_)
      | (with_reducible refine OExt.modChan _ _ ?_ ?_)
      | ox_apply
      | split
      | (dsimp only; split))))

theorem retTo_oext {o0 : OV} (a : ActId) (fs : List (Frame Rat)) (v : Val) (h0 : OX(o0, w)) :
    OX(o0, (w.retTo a fs v)) := by unfold retTo; ox h0
theorem raiseTo_oext {o0 : OV} (a : ActId) (fs : List (Frame Rat)) (e : ExnId) (h0 : OX(o0, w)) :
    OX(o0, (w.raiseTo a fs e)) := by unfold raiseTo; ox h0
theorem raiseNew_oext {o0 : OV} (a : ActId) (fs : List (Frame Rat)) (c : ExnCls) (h0 : OX(o0, w)) :
    OX(o0, (w.raiseNew a fs c)) := by unfold raiseNew; ox h0
theorem hibernate_oext {o0 : OV} (a : ActId) (fs : List (Frame Rat)) (h0 : OX(o0, w)) :
    OX(o0, (w.hibernate a fs)) := by unfold hibernate; ox h0
theorem finishAct_oext {o0 : OV} (a : ActId) (m : Mode) (h0 : OX(o0, w)) :
    OX(o0, (w.finishAct a m)) := by unfold finishAct; ox h0
theorem awakeAll_oext {o0 : OV} (c : CondId) (h0 : OX(o0, w)) :
    OX(o0, (w.awakeAll c)) := by unfold awakeAll; ox h0
theorem awakeNext_oext {o0 : OV} (c : CondId) (h0 : OX(o0, w)) :
    OX(o0, ((w.awakeNext c).1)) := by unfold awakeNext; ox h0
theorem setDone_oext {o0 : OV} (t : TaskId) (h0 : OX(o0, w)) :
    OX(o0, (w.setDone t)) := by unfold setDone; ox h0
theorem childFinished_oext {o0 : OV} (t : TaskId) (f : Bool) (h0 : OX(o0, w)) :
    OX(o0, (w.childFinished t f)) := by unfold childFinished; ox h0
theorem taskFinalize_oext {o0 : OV} (t : TaskId) (h0 : OX(o0, w)) :
    OX(o0, (w.taskFinalize t)) := by unfold taskFinalize; ox h0
theorem newConcurrent_oext {o0 : OV} (c : List ExnId) (h0 : OX(o0, w)) :
    OX(o0, ((w.newConcurrent c).1)) := by unfold newConcurrent; ox h0
theorem propagateExceptions_oext {o0 : OV} (s : ScopeId) (e : Option ExnId) (h0 : OX(o0, w)) :
    OX(o0, ((w.propagateExceptions s e).1)) := by unfold propagateExceptions; ox h0
theorem condSubscribe_oext {o0 : OV} (c : CondId) (a : ActId) (s : SigId) (h0 : OX(o0, w)) :
    OX(o0, (w.condSubscribe c a s)) := by unfold condSubscribe; ox h0
theorem plainUnsubscribe_oext {o0 : OV} (c : CondId) (a : ActId) (s : SigId) (h0 : OX(o0, w)) :
    OX(o0, ((w.plainUnsubscribe c a s).1)) := by unfold plainUnsubscribe; ox h0
theorem unsubscribe_oext {o0 : OV} (c : CondId) (a : ActId) (s : SigId) (h0 : OX(o0, w)) :
    OX(o0, ((w.unsubscribe c a s).1)) := by unfold unsubscribe; ox h0
theorem doPostpone_oext {o0 : OV} (a : ActId) (fs : List (Frame Rat)) (h0 : OX(o0, w)) :
    OX(o0, (w.doPostpone a fs)) := by unfold doPostpone; ox h0

theorem ensureTrigger_oext {o0 : OV} {c : CondId} {w w' : World Rat} (h : w.ensureTrigger c = some w')
    (h0 : OX(o0, w)) : OX(o0, w') := by
  unfold ensureTrigger at h
  split at h
  · exact schedule_oext h (by ox h0)
  · cases h; exact h0
macro_rules | `(tactic| ox_hyp) => `(tactic| refine ensureTrigger_oext ‹_ = some _› ?_)

theorem subscribe_oext {o0 : OV} {c : CondId} {a : ActId} {s : SigId} {w w' : World Rat} (h : w.subscribe c a s = some w')
    (h0 : OX(o0, w)) : OX(o0, w') := by
  unfold subscribe at h
  split at h
  · cases h; ox h0
  · exact schedule_oext h (by ox h0)
  · split at h
    · cases h; ox h0
    · simp only [Option.map_eq_some_iff] at h
      obtain ⟨w1, h1, rfl⟩ := h
      have h2 := ensureTrigger_oext h1 h0
      ox h2
  · split at h
    · cases h; ox h0
    · split at h
      · cases h; ox h0
      · simp only [Option.map_eq_some_iff] at h
        obtain ⟨w1, h1, rfl⟩ := h
        have h2 := ensureTrigger_oext h1 h0
        ox h2
  · cases h; ox h0
macro_rules | `(tactic| ox_hyp) => `(tactic| refine subscribe_oext ‹_ = some _› ?_)

theorem doSuspend_oext {o0 : OV} (a : ActId) (fs : List (Frame Rat)) (wh : When Rat) (h0 : OX(o0, w)) :
    OX(o0, (w.doSuspend a fs wh)) := by unfold doSuspend; ox h0
theorem doNotifAwait_oext {o0 : OV} (a : ActId) (fs : List (Frame Rat)) (c : CondId) (h0 : OX(o0, w)) :
    OX(o0, (w.doNotifAwait a fs c)) := by unfold doNotifAwait; ox h0
theorem doCondAwait_oext {o0 : OV} (a : ActId) (fs : List (Frame Rat)) (c : CondId) (h0 : OX(o0, w)) :
    OX(o0, (w.doCondAwait a fs c)) := by unfold doCondAwait; ox h0
theorem lockRelease_oext {o0 : OV} (l : Name) (h0 : OX(o0, w)) :
    OX(o0, (w.lockRelease l)) := by unfold lockRelease; ox h0
theorem beginClose_oext {o0 : OV} (a : ActId) (fs : List (Frame Rat)) (s : ScopeId) (o : Option ExnId) (g : Bool) (h0 : OX(o0, w)) :
    OX(o0, (w.beginClose a fs s o g)) := by unfold beginClose; ox h0
theorem continueClose_oext {o0 : OV} (a : ActId) (fs : List (Frame Rat)) (s : ScopeId) (todo : List TaskId) (r : ExnId) (v : Bool) (o : Option ExnId) (g : Bool) (h0 : OX(o0, w)) :
    OX(o0, (w.continueClose a fs s todo r v o g)) := by unfold continueClose; ox h0
theorem queueGetEnter_oext {o0 : OV} (a : ActId) (fs : List (Frame Rat)) (q : Name) (h0 : OX(o0, w)) :
    OX(o0, (w.queueGetEnter a fs q)) := by unfold queueGetEnter; ox h0
theorem lockAcquired_oext {o0 : OV} (a : ActId) (fs : List (Frame Rat)) (l : Name) (c : LockCont Rat) (h0 : OX(o0, w)) :
    OX(o0, (w.lockAcquired a fs l c)) := by unfold lockAcquired; ox h0
theorem acquireLock_oext {o0 : OV} (a : ActId) (fs : List (Frame Rat)) (l : Name) (c : LockCont Rat) (h0 : OX(o0, w)) :
    OX(o0, (w.acquireLock a fs l c)) := by unfold acquireLock; ox h0
theorem setLevels_oext {o0 : OV} (r : Name) (lv : List Int) (h0 : OX(o0, w)) :
    OX(o0, (w.setLevels r lv)) := by unfold setLevels; ox h0
theorem setTrackedValue_oext {o0 : OV} (x : Name) (v : Int) (h0 : OX(o0, w)) :
    OX(o0, (w.setTrackedValue x v)) := by unfold setTrackedValue; ox h0
theorem throttle_oext {o0 : OV} (p : Name) (h0 : OX(o0, w)) :
    OX(o0, (w.throttle p)) := by unfold throttle; ox h0
theorem pipeFinish_oext {o0 : OV} (p : Name) (i : Nat) (h0 : OX(o0, w)) :
    OX(o0, (w.pipeFinish p i)) := by unfold pipeFinish; ox h0
theorem pipeWindowStart_oext {o0 : OV} (a : ActId) (fs : List (Frame Rat)) (p : Name) (i : Nat) (t1 t2 t3 : Rat) (h0 : OX(o0, w)) :
    OX(o0, (w.pipeWindowStart a fs p i t1 t2 t3)) := by unfold pipeWindowStart; ox h0
theorem tickNext_oext {o0 : OV} (a : ActId) (fs : List (Frame Rat)) (b : Bool) (p l : Rat) (n : Nat) (body : List (Stmt Rat)) (h0 : OX(o0, w)) :
    OX(o0, (w.tickNext a fs b p l n body)) := by unfold tickNext; ox h0
theorem borrowEnter_oext {o0 : OV} (a : ActId) (fs : List (Frame Rat)) (r : Name) (am : List Int) (bind : Name) (body : List (Stmt Rat)) (c : Bool) (h0 : OX(o0, w)) :
    OX(o0, (w.borrowEnter a fs r am bind body c)) := by unfold borrowEnter; ox h0
theorem flagForceSet_oext {o0 : OV} (c : CondId) (h0 : OX(o0, w)) :
    OX(o0, (w.flagForceSet c)) := by unfold flagForceSet; ox h0
theorem pyScopeDo_oext {o0 : OV} (sid : ScopeId) (prog : List (Stmt Rat)) (after : Option Rat) (h0 : OX(o0, w)) :
    OX(o0, ((w.pyScopeDo sid prog after).1)) := by unfold pyScopeDo; ox h0
theorem pySchedule_oext {o0 : OV} (prog : List (Stmt Rat)) (d : Option Rat) (h0 : OX(o0, w)) :
    OX(o0, ((w.pySchedule prog d).1)) := by unfold pySchedule; ox h0
theorem pyTrigger_oext {o0 : OV} (e : Nat) (h0 : OX(o0, w)) :
    OX(o0, ((w.pyTrigger e).1)) := by unfold pyTrigger; ox h0
theorem pySetValue_oext {o0 : OV} (e : Nat) (v : Int × Option ExnId) (cv : List Nat) (h0 : OX(o0, w)) :
    OX(o0, ((w.pySetValue e v cv).1)) := by unfold pySetValue; ox h0
theorem pyInterrupt_oext {o0 : OV} (p : Nat) (c : Int) (h0 : OX(o0, w)) :
    OX(o0, (w.pyInterrupt p c)) := by unfold pyInterrupt; ox h0
theorem pySync_oext {o0 : OV} (a : ActId) (lbl : Int) (i : PyInstr Rat) (h0 : OX(o0, w)) :
    OX(o0, ((w.pySync a lbl i).1)) := by unfold pySync; ox h0
theorem pyWaitInterruptible_oext {o0 : OV} (a : ActId) (fs : List (Frame Rat)) (p e : Nat) (h0 : OX(o0, w)) :
    OX(o0, (w.pyWaitInterruptible a fs p e)) := by unfold pyWaitInterruptible; ox h0
theorem pyResume_oext {o0 : OV} (a : ActId) (fs : List (Frame Rat)) (p : Nat) (what : List Int) (e : Option ExnId) (h0 : OX(o0, w)) :
    OX(o0, (w.pyResume a fs p what e)) := by unfold pyResume; ox h0
theorem pyCheckContinue_oext {o0 : OV} (a : ActId) (fs : List (Frame Rat)) (e : Nat) (un : List Nat) (obs : Nat) (h0 : OX(o0, w)) :
    OX(o0, (w.pyCheckContinue a fs e un obs)) := by unfold pyCheckContinue; ox h0
theorem pyCondFail_oext {o0 : OV} (a : ActId) (fs : List (Frame Rat)) (e m : Nat) (h0 : OX(o0, w)) :
    OX(o0, (w.pyCondFail a fs e m)) := by unfold pyCondFail; ox h0
theorem pyGenStep_oext {o0 : OV} (a : ActId) (fs : List (Frame Rat)) (p : Nat) (h0 : OX(o0, w)) :
    OX(o0, (w.pyGenStep a fs p)) := by unfold pyGenStep; ox h0

end World
end USim.Machine
