import USimModel.Machine.Run
import USimModel.Lemmas.PushBucket
import USimModel.Lemmas.KViewAttr
/-!
# The kernel view of the whole machine

`World.kv` is the part of the machine state the clock theorems speak about: configuration, clock,
the saved kernels of enclosing simulations and the time-ordered wait queue.  This file shows, function
by function, what the code that runs *inside one activation* (every statement, every frame, every
primitive of `Machine/Step.lean` and `Machine/Run.lean`) can do to it:

* class A - nothing at all (`kvlemma`: `(f w ..).kv = w.kv`, with the four field equations as simp lemmas);
* class B - `KExt`: configuration, clock and enclosing simulations stay, and with assertions on the wait
  queue only gains activations at dates strictly later than the clock, staying sorted.

`Props/Machine.lean` lifts this to every run of the machine.
-/
set_option linter.unusedVariables false
set_option linter.unusedSimpArgs false
namespace USim.Machine
open TimeLike USim.Prim.Kernel Lean

/-- the part of the world the clock theorems are about -/
structure KV where
  cfg : Config
  time : Rat
  saved : List (Saved Rat)
  queue : List (Rat × List Activation)

def World.kv (w : World Rat) : KV := ⟨w.cfg, w.time, w.saved, w.queue⟩

/-- what code running inside one activation may do to the kernel view -/
structure KExt (k k' : KV) : Prop where
  cfg : k'.cfg = k.cfg
  time : k'.time = k.time
  saved : k'.saved = k.saved
  later : k.cfg.debug = true → ∀ t ∈ keys k'.queue, t ∈ keys k.queue ∨ k.time < t
  sorted : k.cfg.debug = true → (keys k.queue).Pairwise (· < ·) → (keys k'.queue).Pairwise (· < ·)

theorem KExt.refl (k : KV) : KExt k k := ⟨rfl, rfl, rfl, fun _ t h => Or.inl h, fun _ h => h⟩

theorem KExt.trans {a b c : KV} (h1 : KExt a b) (h2 : KExt b c) : KExt a c := by
  refine ⟨h2.cfg.trans h1.cfg, h2.time.trans h1.time, h2.saved.trans h1.saved, ?_, ?_⟩
  · intro hd t ht
    have hb : b.cfg.debug = true := by rw [h1.cfg]; exact hd
    rcases h2.later hb t ht with h | h
    · exact h1.later hd t h
    · right; rw [← h1.time]; exact h
  · intro hd hs
    have hb : b.cfg.debug = true := by rw [h1.cfg]; exact hd
    exact h2.sorted hb (h1.sorted hd hs)

/-- `kvlemma name binders : T := proof` states `T.kv = w.kv` and derives the four field equations as simp lemmas -/
syntax "kvlemma " ident bracketedBinder* " : " term " := " term : command
macro_rules
  | `(kvlemma $n:ident $bs:bracketedBinder* : $t:term := $p:term) => do
    let nCfg := mkIdent (n.getId.appendAfter "_cfg")
    let nTime := mkIdent (n.getId.appendAfter "_time")
    let nSaved := mkIdent (n.getId.appendAfter "_saved")
    let nQueue := mkIdent (n.getId.appendAfter "_queue")
    let w := mkIdent `w
    `(@[kvsimp] theorem $n $bs:bracketedBinder* : ($t).kv = ($w).kv := $p
      @[simp, kvsimp] theorem $nCfg $bs:bracketedBinder* : ($t).cfg = ($w).cfg := by show ($t).kv.cfg = ($w).kv.cfg; rw [$n:ident]
      @[simp, kvsimp] theorem $nTime $bs:bracketedBinder* : ($t).time = ($w).time := by show ($t).kv.time = ($w).kv.time; rw [$n:ident]
      @[simp, kvsimp] theorem $nSaved $bs:bracketedBinder* : ($t).saved = ($w).saved := by show ($t).kv.saved = ($w).kv.saved; rw [$n:ident]
      @[simp, kvsimp] theorem $nQueue $bs:bracketedBinder* : ($t).queue = ($w).queue := by show ($t).kv.queue = ($w).kv.queue; rw [$n:ident])

/-- class A goals `(..).kv = w.kv` -/
macro "kv_a" : tactic => `(tactic| (repeat' (first
  | (with_reducible rfl)
  | (simp only [World.kv, kvsimp]; done)
  | (simp [World.kv]; done)
  | (have hfst := congrArg Prod.fst ‹_ = (_, _)›; dsimp only at hfst; subst hfst)
  | split
  | (dsimp only; split))))

namespace World
variable (w : World Rat)

theorem kv_foldl {α} (f : World Rat → α → World Rat) (h : ∀ w x, (f w x).kv = w.kv) (l : List α) (w : World Rat) :
    (l.foldl f w).kv = w.kv := by
  induction l generalizing w with
  | nil => rfl
  | cons x xs ih => simp only [List.foldl_cons, ih, h]

/-! ### Kernel.lean -/
kvlemma kv_setSig (s : SigId) (f : Sig → Sig) : w.setSig s f := rfl
kvlemma kv_setCond (s : CondId) (f : Cond Rat → Cond Rat) : w.setCond s f := rfl
kvlemma kv_setAct (s : ActId) (f : Activity Rat → Activity Rat) : w.setAct s f := rfl
kvlemma kv_setTask (s : TaskId) (f : Task → Task) : w.setTask s f := rfl
kvlemma kv_setScope (s : ScopeId) (f : Scope → Scope) : w.setScope s f := rfl
kvlemma kv_newExn (c : ExnCls) : (w.newExn c).1 := rfl
kvlemma kv_newSig (k : SigKind) : (w.newSig k).1 := rfl
kvlemma kv_newCond (k : CondKind Rat) : (w.newCond k).1 := rfl
kvlemma kv_newAct (fs : List (Frame Rat)) (r : Bool) (l : Int) : (w.newAct fs r l).1 := rfl
kvlemma kv_revoke (s : SigId) : w.revoke s := rfl
kvlemma kv_scheduleNow (a : ActId) (s : Option SigId) : w.scheduleNow a s := by unfold scheduleNow; split <;> rfl
kvlemma kv_emit (a : ActId) (t : String) (l : List Int) : w.emit a t l := rfl
kvlemma kv_emitAs (a : ActId) (lb : Int) (t : String) (l : List Int) : w.emitAs a lb t l := rfl
kvlemma kv_emitScope (a : ActId) (s : ScopeId) (t : String) (l : List Int) : w.emitScope a s t l := by
  unfold emitScope; split <;> rfl

theorem kext_push {w w1 : World Rat} {key : Rat} {act : Activation} (e1 : w1.cfg = w.cfg) (e2 : w1.time = w.time)
    (e3 : w1.saved = w.saved) (e4 : w1.queue = pushBucket key act w.queue) (hk : w.cfg.debug = true → w.time < key) :
    KExt w.kv w1.kv := by
  refine ⟨e1, e2, e3, ?_, ?_⟩
  · intro hd t ht
    simp only [kv, e4] at ht
    rcases (mem_keys_pushBucket _ _ _ _).mp ht with rfl | ht
    · exact Or.inr (hk hd)
    · exact Or.inl ht
  · intro _ hs
    simp only [kv, e4]
    exact pushBucket_sorted _ _ _ hs

/-- **`Loop.schedule` is the only way into the wait queue**, and with its assertion on it only accepts later dates -/
theorem schedule_kext {k0 : KV} {a : ActId} {s : Option SigId} {wh : When Rat} {w w' : World Rat}
    (h : w.schedule a s wh = some w') (h0 : KExt k0 w.kv) : KExt k0 w'.kv := by
  refine KExt.trans h0 ?_
  unfold schedule at h
  cases wh with
  | now =>
    simp only [Option.some.injEq] at h
    subst h
    cases s <;> exact KExt.refl _
  | delay d =>
    simp only at h
    split at h
    · exact absurd h (by simp)
    · rename_i hg
      simp only [Option.some.injEq] at h
      subst h
      have hk : w.cfg.debug = true → w.time < w.time + d := by
        intro hd
        simp only [hd, Bool.true_and, Bool.not_eq_true', Bool.not_eq_false] at hg
        have : (0 : Rat) < d := by simpa [TimeLike.gt, lt_rat, TimeLike.zero] using hg
        grind
      cases s
      · exact kext_push rfl rfl rfl rfl hk
      · exact kext_push rfl rfl rfl rfl hk
  | at_ t =>
    simp only at h
    split at h
    · exact absurd h (by simp)
    · rename_i hg
      simp only [Option.some.injEq] at h
      subst h
      have hk : w.cfg.debug = true → w.time < t := by
        intro hd
        simp only [hd, Bool.true_and, Bool.not_eq_true', Bool.not_eq_false] at hg
        simpa [TimeLike.gt, lt_rat] using hg
      cases s
      · exact kext_push rfl rfl rfl rfl hk
      · exact kext_push rfl rfl rfl rfl hk

/-! ### Step.lean -/
kvlemma kv_setMode (m : Mode) : w.setMode m := by unfold setMode; split <;> rfl
kvlemma kv_setFrames (a : ActId) (fs : List (Frame Rat)) : w.setFrames a fs := rfl
kvlemma kv_retTo (a : ActId) (fs : List (Frame Rat)) (v : Val) : w.retTo a fs v := by unfold retTo; kv_a
kvlemma kv_raiseTo (a : ActId) (fs : List (Frame Rat)) (e : ExnId) : w.raiseTo a fs e := by unfold raiseTo; kv_a
kvlemma kv_raiseNew (a : ActId) (fs : List (Frame Rat)) (c : ExnCls) : w.raiseNew a fs c := by unfold raiseNew; kv_a
kvlemma kv_hibernate (a : ActId) (fs : List (Frame Rat)) : w.hibernate a fs := by unfold hibernate; kv_a
kvlemma kv_finishAct (a : ActId) (m : Mode) : w.finishAct a m := by unfold finishAct; kv_a
kvlemma kv_awakeAll (c : CondId) : w.awakeAll c := by
  unfold awakeAll; simp only []; rw [kv_foldl _ (by intro w x; simp [kv])]; rfl
kvlemma kv_awakeNext (c : CondId) : (w.awakeNext c).1 := by unfold awakeNext; kv_a
kvlemma kv_setDone (t : TaskId) : w.setDone t := by unfold setDone; kv_a
kvlemma kv_childFinished (t : TaskId) (f : Bool) : w.childFinished t f := by unfold childFinished; kv_a
kvlemma kv_taskFinalize (t : TaskId) : w.taskFinalize t := by
  unfold taskFinalize; simp only []; rw [kv_setDone, kv_foldl _ (by intro w x; rfl)]
kvlemma kv_newConcurrent (c : List ExnId) : (w.newConcurrent c).1 := by unfold newConcurrent; kv_a
kvlemma kv_propagateExceptions (s : ScopeId) (e : Option ExnId) : (w.propagateExceptions s e).1 := by
  unfold propagateExceptions; kv_a
kvlemma kv_condSubscribe (c : CondId) (a : ActId) (s : SigId) : w.condSubscribe c a s := by unfold condSubscribe; kv_a
kvlemma kv_plainUnsubscribe (c : CondId) (a : ActId) (s : SigId) : (w.plainUnsubscribe c a s).1 := by
  unfold plainUnsubscribe; kv_a
kvlemma kv_unsubscribe (c : CondId) (a : ActId) (s : SigId) : (w.unsubscribe c a s).1 := by unfold unsubscribe; kv_a
kvlemma kv_doPostpone (a : ActId) (fs : List (Frame Rat)) : w.doPostpone a fs := by unfold doPostpone; kv_a

theorem kv_buildNorm_both :
    (∀ (w : World Rat) (c : CExpr Rat), ∀ w' i, w.buildNorm c = some (w', i) → w'.kv = w.kv) ∧
    (∀ (w : World Rat) (cs : List (CExpr Rat)), ∀ w' is, w.buildNorms cs = some (w', is) → w'.kv = w.kv) := by
  apply World.buildNorm.mutual_induct
  case case4 =>
    intro w c h1 h2 w' i h
    cases c <;> first | (exact (h1 _ rfl).elim) | (exact (h2 _ rfl).elim) | (simp [buildNorm] at h)
  case case12 =>
    intro w cs ih w' i h
    simp only [buildNorm, Option.map_eq_some_iff, Prod.exists] at h
    obtain ⟨w1, ids, h1, h2⟩ := h
    have := ih w1 ids h1
    have e : w' = (w1.newCond (.all ids)).1 := by rw [h2]
    rw [e, kv_newCond, this]
  case case13 =>
    intro w cs ih w' i h
    simp only [buildNorm, Option.map_eq_some_iff, Prod.exists] at h
    obtain ⟨w1, ids, h1, h2⟩ := h
    have := ih w1 ids h1
    have e : w' = (w1.newCond (.any ids)).1 := by rw [h2]
    rw [e, kv_newCond, this]
  case case18 =>
    intro w a b iha ihb w' i h
    simp only [buildNorm, Option.bind_eq_some_iff, Option.map_eq_some_iff, Prod.exists] at h
    obtain ⟨w1, ia, h1, w2, ib, h2, h3⟩ := h
    have e := congrArg Prod.fst h3
    simp only at e
    rw [← e, kv_newCond, ihb (w1, ia) w2 ib h2, iha w1 ia h1]
  case case19 =>
    intro w a b iha ihb w' i h
    simp only [buildNorm, Option.bind_eq_some_iff, Option.map_eq_some_iff, Prod.exists] at h
    obtain ⟨w1, ia, h1, w2, ib, h2, h3⟩ := h
    have e := congrArg Prod.fst h3
    simp only at e
    rw [← e, kv_newCond, ihb (w1, ia) w2 ib h2, iha w1 ia h1]
  case case21 =>
    intro w c cs ih2 ih1 w' is h
    simp only [buildNorms, Option.bind_eq_some_iff, Option.map_eq_some_iff, Prod.exists, Prod.mk.injEq] at h
    obtain ⟨w1, i1, h1, w2, is2, h2, rfl, _⟩ := h
    rw [ih1 w1 w2 is2 h2, ih2 w1 i1 h1]
  all_goals intros
  all_goals rename_i h
  all_goals (simp only [buildNorm, buildNorms, Option.map_eq_some_iff, Option.some.injEq, Prod.mk.injEq] at h)
  all_goals (try obtain ⟨_, _, h⟩ := h)
  all_goals (try split at h)
  all_goals (try simp only [Prod.mk.injEq] at h)
  all_goals (try (obtain ⟨rfl, _⟩ := h; rfl))
  all_goals (first | rfl | (subst_vars; rfl))

theorem kv_buildNorm {w w' : World Rat} {c : CExpr Rat} {i : CondId} (h : w.buildNorm c = some (w', i)) : w'.kv = w.kv :=
  kv_buildNorm_both.1 w c w' i h
theorem kv_buildCond {w w' : World Rat} {c : CExpr Rat} {i : CondId} (h : w.buildCond c = some (w', i)) : w'.kv = w.kv := by
  unfold buildCond at h
  simp only [Option.bind_eq_some_iff] at h
  obtain ⟨_, _, h⟩ := h
  exact kv_buildNorm h


/-! ### class B: code that may schedule for a later date -/

/-- one backward step for a class B goal `KExt k0 (f w ..).kv`: the lemma of `f` (extended below, lemma by lemma) -/
elab "kx_apply" : tactic => viewApply "_kext"

/-- lemmas of functions that return `Option (World _)`: applied to a hypothesis `_ = some w'` (rules added below) -/
syntax "kx_hyp" : tactic
macro_rules | `(tactic| kx_hyp) => `(tactic| fail "no hypothesis lemma applies")

/-- backward chaining for class B goals from a hypothesis `h : KExt k0 w.kv` -/
syntax "kx " ident : tactic
macro_rules
  | `(tactic| kx $h:ident) => `(tactic| (repeat' (first
      | (with_reducible exact $h)
      | (have h' := $h; simp only [World.kv] at h'; simp only [World.kv, kvsimp]; with_reducible exact h')
      | (have hb := kv_buildCond ‹_ = some (_, _)›; simp only [World.kv, KV.mk.injEq] at hb; obtain ⟨hb1, hb2, hb3, hb4⟩ := hb;
         have h' := $h; simp only [World.kv] at h'; simp only [World.kv, kvsimp, hb1, hb2, hb3, hb4]; with_reducible exact h')
      | (simp only [kvsimp])
      | (rw [kv_foldl _ (by intro w x; simp [World.kv])])
      | (have hfst := congrArg Prod.fst ‹_ = (_, _)›; dsimp only at hfst; subst hfst)
      | (refine schedule_kext ‹_ = some _› ?_)
      | kx_hyp
      | kx_apply
      | split
      | (dsimp only; split))))

theorem ensureTrigger_kext {k0 : KV} {c : CondId} {w w' : World Rat} (h : w.ensureTrigger c = some w') (h0 : KExt k0 w.kv) :
    KExt k0 w'.kv := by
  unfold ensureTrigger at h
  split at h
  · exact schedule_kext h (by first | exact h0 | simpa [kv] using h0)
  · cases h; exact h0
macro_rules | `(tactic| kx_hyp) => `(tactic| refine ensureTrigger_kext ‹_ = some _› ?_)

theorem subscribe_kext {k0 : KV} {c : CondId} {a : ActId} {s : SigId} {w w' : World Rat} (h : w.subscribe c a s = some w')
    (h0 : KExt k0 w.kv) : KExt k0 w'.kv := by
  unfold subscribe at h
  split at h
  · cases h; simpa [kv] using h0
  · exact schedule_kext h (by simpa [kv] using h0)
  · split at h
    · cases h; simpa [kv] using h0
    · simp only [Option.map_eq_some_iff] at h
      obtain ⟨w1, h1, rfl⟩ := h
      simpa [kv] using ensureTrigger_kext h1 h0
  · split at h
    · cases h; simpa [kv] using h0
    · split at h
      · cases h; simpa [kv] using h0
      · simp only [Option.map_eq_some_iff] at h
        obtain ⟨w1, h1, rfl⟩ := h
        simpa [kv] using ensureTrigger_kext h1 h0
  · cases h; simpa [kv] using h0
macro_rules | `(tactic| kx_hyp) => `(tactic| refine subscribe_kext ‹_ = some _› ?_)

theorem doSuspend_kext {k0 : KV} (a : ActId) (fs : List (Frame Rat)) (wh : When Rat) (h0 : KExt k0 w.kv) :
    KExt k0 (w.doSuspend a fs wh).kv := by unfold doSuspend; kx h0

theorem doNotifAwait_kext {k0 : KV} (a : ActId) (fs : List (Frame Rat)) (c : CondId) (h0 : KExt k0 w.kv) :
    KExt k0 (w.doNotifAwait a fs c).kv := by unfold doNotifAwait; kx h0

theorem doCondAwait_kext {k0 : KV} (a : ActId) (fs : List (Frame Rat)) (c : CondId) (h0 : KExt k0 w.kv) :
    KExt k0 (w.doCondAwait a fs c).kv := by unfold doCondAwait; kx h0

/-! ### Run.lean: helpers -/
kvlemma kv_lockRelease (l : Name) : w.lockRelease l := by unfold lockRelease; kv_a
kvlemma kv_beginClose (a : ActId) (fs : List (Frame Rat)) (s : ScopeId) (o : Option ExnId) (g : Bool) :
    w.beginClose a fs s o g := by unfold beginClose; kv_a
kvlemma kv_continueClose (a : ActId) (fs : List (Frame Rat)) (s : ScopeId) (todo : List TaskId) (r : ExnId) (v : Bool)
    (o : Option ExnId) (g : Bool) : w.continueClose a fs s todo r v o g := by unfold continueClose; kv_a

theorem queueGetEnter_kext {k0 : KV} (a : ActId) (fs : List (Frame Rat)) (q : Name) (h0 : KExt k0 w.kv) :
    KExt k0 (w.queueGetEnter a fs q).kv := by unfold queueGetEnter; kx h0
theorem lockAcquired_kext {k0 : KV} (a : ActId) (fs : List (Frame Rat)) (l : Name) (c : LockCont Rat) (h0 : KExt k0 w.kv) :
    KExt k0 (w.lockAcquired a fs l c).kv := by unfold lockAcquired; kx h0
theorem acquireLock_kext {k0 : KV} (a : ActId) (fs : List (Frame Rat)) (l : Name) (c : LockCont Rat) (h0 : KExt k0 w.kv) :
    KExt k0 (w.acquireLock a fs l c).kv := by unfold acquireLock; kx h0

theorem kv_foldl_awake (l : List CondId) : (l.foldl (fun (w : World Rat) c => if w.eval c then w.awakeAll c else w) w).kv = w.kv :=
  kv_foldl _ (by intro w x; split <;> simp [kv]) l w
kvlemma kv_setLevels (r : Name) (lv : List Int) : w.setLevels r lv := by
  unfold setLevels; simp only []; rw [kv_foldl_awake]; rfl
kvlemma kv_setTrackedValue (x : Name) (v : Int) : w.setTrackedValue x v := by
  unfold setTrackedValue; simp only []; rw [kv_foldl_awake]; rfl
kvlemma kv_throttle (p : Name) : w.throttle p := by unfold throttle; kv_a
kvlemma kv_pipeFinish (p : Name) (i : Nat) : w.pipeFinish p i := by unfold pipeFinish; kv_a

theorem pipeWindowStart_kext {k0 : KV} (a : ActId) (fs : List (Frame Rat)) (p : Name) (i : Nat) (t1 t2 t3 : Rat) (h0 : KExt k0 w.kv) :
    KExt k0 (w.pipeWindowStart a fs p i t1 t2 t3).kv := by unfold pipeWindowStart; kx h0
theorem tickNext_kext {k0 : KV} (a : ActId) (fs : List (Frame Rat)) (b : Bool) (p l : Rat) (n : Nat) (body : List (Stmt Rat))
    (h0 : KExt k0 w.kv) : KExt k0 (w.tickNext a fs b p l n body).kv := by unfold tickNext; kx h0
theorem borrowEnter_kext {k0 : KV} (a : ActId) (fs : List (Frame Rat)) (r : Name) (am : List Int) (bind : Name)
    (body : List (Stmt Rat)) (c : Bool) (h0 : KExt k0 w.kv) : KExt k0 (w.borrowEnter a fs r am bind body c).kv := by
  unfold borrowEnter; kx h0

/-! ### Run.lean: the SimPy layer -/
kvlemma kv_setPyEv (e : Nat) (f : PyEvent → PyEvent) : w.setPyEv e f := rfl
kvlemma kv_setPyProc (e : Nat) (f : PyProc Rat → PyProc Rat) : w.setPyProc e f := rfl
kvlemma kv_pyBind (x : Name) (e : Nat) : w.pyBind x e := rfl
kvlemma kv_newFlag : w.newFlag.1 := rfl
kvlemma kv_flagForceSet (c : CondId) : w.flagForceSet c := by unfold flagForceSet; kv_a
kvlemma kv_pyScopeDo (sid : ScopeId) (prog : List (Stmt Rat)) (after : Option Rat) : (w.pyScopeDo sid prog after).1 := by
  unfold pyScopeDo; kv_a
kvlemma kv_pySchedule (prog : List (Stmt Rat)) (d : Option Rat) : (w.pySchedule prog d).1 := by unfold pySchedule; kv_a
kvlemma kv_pyNewEvent (k : PyKind) : (w.pyNewEvent k).1 := rfl
kvlemma kv_pyTrigger (e : Nat) : (w.pyTrigger e).1 := by unfold pyTrigger; kv_a
kvlemma kv_pySetValue (e : Nat) (v : Int × Option ExnId) (cv : List Nat) : (w.pySetValue e v cv).1 := by unfold pySetValue; kv_a
kvlemma kv_pyInterrupt (p : Nat) (c : Int) : w.pyInterrupt p c := by unfold pyInterrupt; kv_a
kvlemma kv_pySync (a : ActId) (lbl : Int) (i : PyInstr Rat) : (w.pySync a lbl i).1 := by unfold pySync; kv_a
theorem pyWaitInterruptible_kext {k0 : KV} (a : ActId) (fs : List (Frame Rat)) (p e : Nat) (h0 : KExt k0 w.kv) :
    KExt k0 (w.pyWaitInterruptible a fs p e).kv := by unfold pyWaitInterruptible; kx h0
kvlemma kv_pyResume (a : ActId) (fs : List (Frame Rat)) (p : Nat) (what : List Int) (e : Option ExnId) :
    w.pyResume a fs p what e := by unfold pyResume; kv_a
theorem pyCheckContinue_kext {k0 : KV} (a : ActId) (fs : List (Frame Rat)) (e : Nat) (un : List Nat) (obs : Nat) (h0 : KExt k0 w.kv) :
    KExt k0 (w.pyCheckContinue a fs e un obs).kv := by unfold pyCheckContinue; kx h0
kvlemma kv_pyCondFail (a : ActId) (fs : List (Frame Rat)) (e m : Nat) : w.pyCondFail a fs e m := by unfold pyCondFail; kv_a
kvlemma kv_pyGenStep (a : ActId) (fs : List (Frame Rat)) (p : Nat) : w.pyGenStep a fs p := by unfold pyGenStep; kv_a
end World
end USim.Machine
