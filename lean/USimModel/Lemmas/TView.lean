import USimModel.Lemmas.KView
/-!
# The trace view of the whole machine

`World.tv` = (clock, trace).  This file shows, function by function (the same inventory as `Lemmas/KView.lean`),
that code running inside one activation never moves the clock and only *prepends* events to the trace, each
stamped with the clock of that moment (`TExt`).  `Props/Machine.lean` combines this with the clock theorems:
the times written into the trace of any program never decrease (as long as no nested simulation is started).

Derived from `KView.lean` (same tactics, `tv`/`TExt`/`tx` instead of `kv`/`KExt`/`kx`); the only writers of the trace
are `emit`, `emitAs` and `emitScope`.
-/
set_option linter.unusedVariables false
set_option linter.unusedSimpArgs false
namespace USim.Machine
open TimeLike USim.Prim.Kernel Lean

/-- clock and trace -/
structure TV where
  time : Rat
  trace : List (Event Rat)

def World.tv (w : World Rat) : TV := ⟨w.time, w.trace⟩

/-- what code running inside one activation may do to clock and trace: the clock stays, the trace gets new events in
front, all stamped with that clock -/
structure TExt (t t' : TV) : Prop where
  time : t'.time = t.time
  ext : ∃ l, t'.trace = l ++ t.trace ∧ ∀ e ∈ l, e.time = t.time

theorem TExt.refl (t : TV) : TExt t t := ⟨rfl, [], rfl, by simp⟩

/-- `tvlemma name binders : T := proof` states `T.tv = w.tv` and derives the field equations as simp lemmas -/
syntax "tvlemma " ident bracketedBinder* " : " term " := " term : command
macro_rules
  | `(tvlemma $n:ident $bs:bracketedBinder* : $t:term := $p:term) => do
    let nTime := mkIdent (n.getId.appendAfter "_time")
    let nTrace := mkIdent (n.getId.appendAfter "_trace")
    let w := mkIdent `w
    `(@[tvsimp] theorem $n $bs:bracketedBinder* : ($t).tv = ($w).tv := $p
      @[tvsimp] theorem $nTime $bs:bracketedBinder* : ($t).time = ($w).time := by show ($t).tv.time = ($w).tv.time; rw [$n:ident]
      @[simp, tvsimp] theorem $nTrace $bs:bracketedBinder* : ($t).trace = ($w).trace := by show ($t).tv.trace = ($w).tv.trace; rw [$n:ident])

/-- class A goals `(..).tv = w.tv` -/
macro "tv_a" : tactic => `(tactic| (repeat' (first
  | (with_reducible rfl)
  | (simp only [World.tv, tvsimp, kvsimp]; done)
  | (simp [World.tv]; done)
  | (have hfst := congrArg Prod.fst ‹_ = (_, _)›; dsimp only at hfst; subst hfst)
  | split
  | (dsimp only; split))))

namespace World
variable (w : World Rat)

theorem tv_foldl {α} (f : World Rat → α → World Rat) (h : ∀ w x, (f w x).tv = w.tv) (l : List α) (w : World Rat) :
    (l.foldl f w).tv = w.tv := by
  induction l generalizing w with
  | nil => rfl
  | cons x xs ih => simp only [List.foldl_cons, ih, h]

/-! ### Kernel.lean -/
tvlemma tv_setSig (s : SigId) (f : Sig → Sig) : w.setSig s f := rfl
tvlemma tv_setCond (s : CondId) (f : Cond Rat → Cond Rat) : w.setCond s f := rfl
tvlemma tv_setAct (s : ActId) (f : Activity Rat → Activity Rat) : w.setAct s f := rfl
tvlemma tv_setTask (s : TaskId) (f : Task → Task) : w.setTask s f := rfl
tvlemma tv_setScope (s : ScopeId) (f : Scope → Scope) : w.setScope s f := rfl
tvlemma tv_newExn (c : ExnCls) : (w.newExn c).1 := rfl
tvlemma tv_newSig (k : SigKind) : (w.newSig k).1 := rfl
tvlemma tv_newCond (k : CondKind Rat) : (w.newCond k).1 := rfl
tvlemma tv_newAct (fs : List (Frame Rat)) (r : Bool) (l : Int) : (w.newAct fs r l).1 := rfl
tvlemma tv_revoke (s : SigId) : w.revoke s := rfl
tvlemma tv_scheduleNow (a : ActId) (s : Option SigId) : w.scheduleNow a s := by unfold scheduleNow; split <;> rfl
-- (emit: see below)
-- (emitAs: see below)
-- (emitScope: see below)
/-! ### Step.lean -/
tvlemma tv_setMode (m : Mode) : w.setMode m := by unfold setMode; split <;> rfl
tvlemma tv_setFrames (a : ActId) (fs : List (Frame Rat)) : w.setFrames a fs := rfl
tvlemma tv_retTo (a : ActId) (fs : List (Frame Rat)) (v : Val) : w.retTo a fs v := by unfold retTo; tv_a
tvlemma tv_raiseTo (a : ActId) (fs : List (Frame Rat)) (e : ExnId) : w.raiseTo a fs e := by unfold raiseTo; tv_a
tvlemma tv_raiseNew (a : ActId) (fs : List (Frame Rat)) (c : ExnCls) : w.raiseNew a fs c := by unfold raiseNew; tv_a
tvlemma tv_hibernate (a : ActId) (fs : List (Frame Rat)) : w.hibernate a fs := by unfold hibernate; tv_a
tvlemma tv_finishAct (a : ActId) (m : Mode) : w.finishAct a m := by unfold finishAct; tv_a
tvlemma tv_awakeAll (c : CondId) : w.awakeAll c := by
  unfold awakeAll; simp only []; rw [tv_foldl _ (by intro w x; simp [tv])]; rfl
tvlemma tv_awakeNext (c : CondId) : (w.awakeNext c).1 := by unfold awakeNext; tv_a
tvlemma tv_setDone (t : TaskId) : w.setDone t := by unfold setDone; tv_a
tvlemma tv_childFinished (t : TaskId) (f : Bool) : w.childFinished t f := by unfold childFinished; tv_a
tvlemma tv_taskFinalize (t : TaskId) : w.taskFinalize t := by
  unfold taskFinalize; simp only []; rw [tv_setDone, tv_foldl _ (by intro w x; rfl)]
tvlemma tv_newConcurrent (c : List ExnId) : (w.newConcurrent c).1 := by unfold newConcurrent; tv_a
tvlemma tv_propagateExceptions (s : ScopeId) (e : Option ExnId) : (w.propagateExceptions s e).1 := by
  unfold propagateExceptions; tv_a
tvlemma tv_condSubscribe (c : CondId) (a : ActId) (s : SigId) : w.condSubscribe c a s := by unfold condSubscribe; tv_a
tvlemma tv_plainUnsubscribe (c : CondId) (a : ActId) (s : SigId) : (w.plainUnsubscribe c a s).1 := by
  unfold plainUnsubscribe; tv_a
tvlemma tv_unsubscribe (c : CondId) (a : ActId) (s : SigId) : (w.unsubscribe c a s).1 := by unfold unsubscribe; tv_a
tvlemma tv_doPostpone (a : ActId) (fs : List (Frame Rat)) : w.doPostpone a fs := by unfold doPostpone; tv_a

theorem tv_buildNorm_both :
    (∀ (w : World Rat) (c : CExpr Rat), ∀ w' i, w.buildNorm c = some (w', i) → w'.tv = w.tv) ∧
    (∀ (w : World Rat) (cs : List (CExpr Rat)), ∀ w' is, w.buildNorms cs = some (w', is) → w'.tv = w.tv) := by
  apply World.buildNorm.mutual_induct
  case case4 =>
    intro w c h1 h2 w' i h
    cases c <;> first | (exact (h1 _ rfl).elim) | (exact (h2 _ rfl).elim) | (simp [buildNorm] at h)
  case case12 =>
    intro w cs ih w' i h
    simp only [buildNorm, Option.map_eq_some_iff, Prod.exists] at h
    obtain ⟨w1, ids, h1, h2⟩ := h
    have := ih w1 ids h1
    have e : w' = (w1.newCond (.all ids)).1 := by rw [h2]
    rw [e, tv_newCond, this]
  case case13 =>
    intro w cs ih w' i h
    simp only [buildNorm, Option.map_eq_some_iff, Prod.exists] at h
    obtain ⟨w1, ids, h1, h2⟩ := h
    have := ih w1 ids h1
    have e : w' = (w1.newCond (.any ids)).1 := by rw [h2]
    rw [e, tv_newCond, this]
  case case18 =>
    intro w a b iha ihb w' i h
    simp only [buildNorm, Option.bind_eq_some_iff, Option.map_eq_some_iff, Prod.exists] at h
    obtain ⟨w1, ia, h1, w2, ib, h2, h3⟩ := h
    have e := congrArg Prod.fst h3
    simp only at e
    rw [← e, tv_newCond, ihb (w1, ia) w2 ib h2, iha w1 ia h1]
  case case19 =>
    intro w a b iha ihb w' i h
    simp only [buildNorm, Option.bind_eq_some_iff, Option.map_eq_some_iff, Prod.exists] at h
    obtain ⟨w1, ia, h1, w2, ib, h2, h3⟩ := h
    have e := congrArg Prod.fst h3
    simp only at e
    rw [← e, tv_newCond, ihb (w1, ia) w2 ib h2, iha w1 ia h1]
  case case21 =>
    intro w c cs ih2 ih1 w' is h
    simp only [buildNorms, Option.bind_eq_some_iff, Option.map_eq_some_iff, Prod.exists, Prod.mk.injEq] at h
    obtain ⟨w1, i1, h1, w2, is2, h2, rfl, _⟩ := h
    rw [ih1 w1 w2 is2 h2, ih2 w1 i1 h1]
  all_goals intros
  all_goals rename_i h
  all_goals (simp only [buildNorm, buildNorms, Option.map_eq_some_iff, Option.some.injEq, Prod.mk.injEq] at h)
  all_goals (try obtain ⟨_, _, h⟩ := h)
  all_goals (try split at h)
  all_goals (try simp only [Prod.mk.injEq] at h)
  all_goals (try (obtain ⟨rfl, _⟩ := h; rfl))
  all_goals (first | rfl | (subst_vars; rfl))

theorem tv_buildNorm {w w' : World Rat} {c : CExpr Rat} {i : CondId} (h : w.buildNorm c = some (w', i)) : w'.tv = w.tv :=
  tv_buildNorm_both.1 w c w' i h
theorem tv_buildCond {w w' : World Rat} {c : CExpr Rat} {i : CondId} (h : w.buildCond c = some (w', i)) : w'.tv = w.tv := by
  unfold buildCond at h
  simp only [Option.bind_eq_some_iff] at h
  obtain ⟨_, _, h⟩ := h
  exact tv_buildNorm h


/-! ### class B: code that may schedule for a later date -/


/-- `Loop.schedule` neither moves the clock nor writes to the trace -/
theorem schedule_tv {a : ActId} {s : Option SigId} {wh : When Rat} {w w' : World Rat} (h : w.schedule a s wh = some w') :
    w'.tv = w.tv := by
  unfold schedule at h
  cases wh with
  | now => simp only [Option.some.injEq] at h; subst h; cases s <;> rfl
  | delay d =>
    simp only at h
    split at h
    · exact absurd h (by simp)
    · simp only [Option.some.injEq] at h; subst h; cases s <;> rfl
  | at_ t =>
    simp only at h
    split at h
    · exact absurd h (by simp)
    · simp only [Option.some.injEq] at h; subst h; cases s <;> rfl
theorem schedule_text {t0 : TV} {a : ActId} {s : Option SigId} {wh : When Rat} {w w' : World Rat}
    (h : w.schedule a s wh = some w') (h0 : TExt t0 w.tv) : TExt t0 w'.tv := by rw [schedule_tv h]; exact h0

/-- one backward step for a class B goal `TExt t0 (f w ..).tv`: the lemma of `f` (extended below, lemma by lemma) -/
elab "tx_apply" : tactic => viewApply "_text"

/-- the writers of the trace, tried by unification when the world term is not headed by a function (a record update
around `w.emit ..`) -/
syntax "tx_emit" : tactic
macro_rules | `(tactic| tx_emit) => `(tactic| fail "not an emit")

/-- lemmas of functions that return `Option (World _)`: applied to a hypothesis `_ = some w'` (rules added below) -/
syntax "tx_hyp" : tactic
macro_rules | `(tactic| tx_hyp) => `(tactic| fail "no hypothesis lemma applies")

/-- backward chaining for class B goals from a hypothesis `h : TExt t0 w.tv` -/
syntax "tx " ident : tactic
macro_rules
  | `(tactic| tx $h:ident) => `(tactic| (repeat' (first
      | (with_reducible exact $h)
      | (have h' := $h; simp only [World.tv] at h'; simp only [World.tv, tvsimp, kvsimp]; with_reducible exact h')
      | (have hb := tv_buildCond ‹_ = some (_, _)›; simp only [World.tv, TV.mk.injEq] at hb; obtain ⟨hb1, hb2⟩ := hb;
         have h' := $h; simp only [World.tv] at h'; simp only [World.tv, tvsimp, kvsimp, hb1, hb2]; with_reducible exact h')
      | (simp only [tvsimp, kvsimp])
      | (rw [tv_foldl _ (by intro w x; simp [World.tv])])
      | (have hfst := congrArg Prod.fst ‹_ = (_, _)›; dsimp only at hfst; subst hfst)
      | (refine schedule_text ‹_ = some _› ?_)
      | tx_hyp
      | tx_apply
      | tx_emit
      | split
      | (dsimp only; split))))


/-! ### the only writers of the trace: every event is stamped with the clock at that moment -/
theorem emit_text {t0 : TV} (a : ActId) (tag : String) (args : List Int) (h0 : TExt t0 w.tv) : TExt t0 (w.emit a tag args).tv := by
  obtain ⟨ht, l, hl, hs⟩ := h0
  simp only [tv] at ht hl
  refine ⟨ht, (⟨w.time, w.turn, a, (w.acts.getD a default).label, tag, args⟩ : Event Rat) :: l, ?_, ?_⟩
  · simp only [tv, emit, hl, List.cons_append]
  · intro e he
    rcases List.mem_cons.mp he with rfl | he
    · exact ht
    · exact hs e he
macro_rules | `(tactic| tx_emit) => `(tactic| apply emit_text)
theorem emitAs_text {t0 : TV} (a : ActId) (lb : Int) (tag : String) (args : List Int) (h0 : TExt t0 w.tv) :
    TExt t0 (w.emitAs a lb tag args).tv := by
  obtain ⟨ht, l, hl, hs⟩ := h0
  simp only [tv] at ht hl
  refine ⟨ht, (⟨w.time, w.turn, a, lb, tag, args⟩ : Event Rat) :: l, ?_, ?_⟩
  · simp only [tv, emitAs, hl, List.cons_append]
  · intro e he
    rcases List.mem_cons.mp he with rfl | he
    · exact ht
    · exact hs e he
macro_rules | `(tactic| tx_emit) => `(tactic| apply emitAs_text)
theorem emitScope_text {t0 : TV} (a : ActId) (s : ScopeId) (tag : String) (args : List Int) (h0 : TExt t0 w.tv) :
    TExt t0 (w.emitScope a s tag args).tv := by
  unfold emitScope; split
  · exact h0
  · exact emit_text w a tag args h0
macro_rules | `(tactic| tx_emit) => `(tactic| apply emitScope_text)

theorem ensureTrigger_tv {c : CondId} {w w' : World Rat} (h : w.ensureTrigger c = some w') : w'.tv = w.tv := by
  unfold ensureTrigger at h
  split at h
  · exact (schedule_tv h).trans rfl
  · cases h; rfl
theorem ensureTrigger_text {t0 : TV} {c : CondId} {w w' : World Rat} (h : w.ensureTrigger c = some w') (h0 : TExt t0 w.tv) :
    TExt t0 w'.tv := by rw [ensureTrigger_tv h]; exact h0
macro_rules | `(tactic| tx_hyp) => `(tactic| refine ensureTrigger_text ‹_ = some _› ?_)

theorem subscribe_tv {c : CondId} {a : ActId} {s : SigId} {w w' : World Rat} (h : w.subscribe c a s = some w') :
    w'.tv = w.tv := by
  unfold subscribe at h
  split at h
  · cases h; rfl
  · exact (schedule_tv h).trans rfl
  · split at h
    · cases h; exact tv_condSubscribe _ _ _ _
    · simp only [Option.map_eq_some_iff] at h
      obtain ⟨w1, h1, rfl⟩ := h
      exact (tv_condSubscribe _ _ _ _).trans (ensureTrigger_tv h1)
  · split at h
    · cases h; rfl
    · split at h
      · cases h; exact tv_condSubscribe _ _ _ _
      · simp only [Option.map_eq_some_iff] at h
        obtain ⟨w1, h1, rfl⟩ := h
        exact (tv_condSubscribe _ _ _ _).trans (ensureTrigger_tv h1)
  · cases h; exact tv_condSubscribe _ _ _ _
theorem subscribe_text {t0 : TV} {c : CondId} {a : ActId} {s : SigId} {w w' : World Rat} (h : w.subscribe c a s = some w')
    (h0 : TExt t0 w.tv) : TExt t0 w'.tv := by rw [subscribe_tv h]; exact h0
macro_rules | `(tactic| tx_hyp) => `(tactic| refine subscribe_text ‹_ = some _› ?_)

theorem doSuspend_text {t0 : TV} (a : ActId) (fs : List (Frame Rat)) (wh : When Rat) (h0 : TExt t0 w.tv) :
    TExt t0 (w.doSuspend a fs wh).tv := by unfold doSuspend; tx h0

theorem doNotifAwait_text {t0 : TV} (a : ActId) (fs : List (Frame Rat)) (c : CondId) (h0 : TExt t0 w.tv) :
    TExt t0 (w.doNotifAwait a fs c).tv := by unfold doNotifAwait; tx h0

theorem doCondAwait_text {t0 : TV} (a : ActId) (fs : List (Frame Rat)) (c : CondId) (h0 : TExt t0 w.tv) :
    TExt t0 (w.doCondAwait a fs c).tv := by unfold doCondAwait; tx h0

/-! ### Run.lean: helpers -/
tvlemma tv_lockRelease (l : Name) : w.lockRelease l := by unfold lockRelease; tv_a
theorem beginClose_text {t0 : TV} (a : ActId) (fs : List (Frame Rat)) (s : ScopeId) (o : Option ExnId) (g : Bool) (h0 : TExt t0 w.tv) :
    TExt t0 (w.beginClose a fs s o g).tv := by unfold beginClose; tx h0
theorem continueClose_text {t0 : TV} (a : ActId) (fs : List (Frame Rat)) (s : ScopeId) (todo : List TaskId) (r : ExnId) (v : Bool) (o : Option ExnId) (g : Bool) (h0 : TExt t0 w.tv) :
    TExt t0 (w.continueClose a fs s todo r v o g).tv := by unfold continueClose; tx h0
theorem queueGetEnter_text {t0 : TV} (a : ActId) (fs : List (Frame Rat)) (q : Name) (h0 : TExt t0 w.tv) :
    TExt t0 (w.queueGetEnter a fs q).tv := by unfold queueGetEnter; tx h0
theorem lockAcquired_text {t0 : TV} (a : ActId) (fs : List (Frame Rat)) (l : Name) (c : LockCont Rat) (h0 : TExt t0 w.tv) :
    TExt t0 (w.lockAcquired a fs l c).tv := by unfold lockAcquired; tx h0
theorem acquireLock_text {t0 : TV} (a : ActId) (fs : List (Frame Rat)) (l : Name) (c : LockCont Rat) (h0 : TExt t0 w.tv) :
    TExt t0 (w.acquireLock a fs l c).tv := by unfold acquireLock; tx h0

theorem tv_foldl_awake (l : List CondId) : (l.foldl (fun (w : World Rat) c => if w.eval c then w.awakeAll c else w) w).tv = w.tv :=
  tv_foldl _ (by intro w x; split <;> simp [tv]) l w
tvlemma tv_setLevels (r : Name) (lv : List Int) : w.setLevels r lv := by
  unfold setLevels; simp only []; rw [tv_foldl_awake]; rfl
tvlemma tv_setTrackedValue (x : Name) (v : Int) : w.setTrackedValue x v := by
  unfold setTrackedValue; simp only []; rw [tv_foldl_awake]; rfl
tvlemma tv_throttle (p : Name) : w.throttle p := by unfold throttle; tv_a
tvlemma tv_pipeFinish (p : Name) (i : Nat) : w.pipeFinish p i := by unfold pipeFinish; tv_a

theorem pipeWindowStart_text {t0 : TV} (a : ActId) (fs : List (Frame Rat)) (p : Name) (i : Nat) (t1 t2 t3 : Rat) (h0 : TExt t0 w.tv) :
    TExt t0 (w.pipeWindowStart a fs p i t1 t2 t3).tv := by unfold pipeWindowStart; tx h0
theorem tickNext_text {t0 : TV} (a : ActId) (fs : List (Frame Rat)) (b : Bool) (p l : Rat) (n : Nat) (body : List (Stmt Rat))
    (h0 : TExt t0 w.tv) : TExt t0 (w.tickNext a fs b p l n body).tv := by unfold tickNext; tx h0
theorem borrowEnter_text {t0 : TV} (a : ActId) (fs : List (Frame Rat)) (r : Name) (am : List Int) (bind : Name)
    (body : List (Stmt Rat)) (c : Bool) (h0 : TExt t0 w.tv) : TExt t0 (w.borrowEnter a fs r am bind body c).tv := by
  unfold borrowEnter; tx h0

/-! ### Run.lean: the SimPy layer -/
tvlemma tv_setPyEv (e : Nat) (f : PyEvent → PyEvent) : w.setPyEv e f := rfl
tvlemma tv_setPyProc (e : Nat) (f : PyProc Rat → PyProc Rat) : w.setPyProc e f := rfl
tvlemma tv_pyBind (x : Name) (e : Nat) : w.pyBind x e := rfl
tvlemma tv_newFlag : w.newFlag.1 := rfl
tvlemma tv_flagForceSet (c : CondId) : w.flagForceSet c := by unfold flagForceSet; tv_a
tvlemma tv_pyScopeDo (sid : ScopeId) (prog : List (Stmt Rat)) (after : Option Rat) : (w.pyScopeDo sid prog after).1 := by
  unfold pyScopeDo; tv_a
tvlemma tv_pySchedule (prog : List (Stmt Rat)) (d : Option Rat) : (w.pySchedule prog d).1 := by unfold pySchedule; tv_a
tvlemma tv_pyNewEvent (k : PyKind) : (w.pyNewEvent k).1 := rfl
tvlemma tv_pyTrigger (e : Nat) : (w.pyTrigger e).1 := by unfold pyTrigger; tv_a
tvlemma tv_pySetValue (e : Nat) (v : Int × Option ExnId) (cv : List Nat) : (w.pySetValue e v cv).1 := by unfold pySetValue; tv_a
tvlemma tv_pyInterrupt (p : Nat) (c : Int) : w.pyInterrupt p c := by unfold pyInterrupt; tv_a
theorem pySync_text {t0 : TV} (a : ActId) (lbl : Int) (i : PyInstr Rat) (h0 : TExt t0 w.tv) :
    TExt t0 ((w.pySync a lbl i).1).tv := by unfold pySync; tx h0
theorem pyWaitInterruptible_text {t0 : TV} (a : ActId) (fs : List (Frame Rat)) (p e : Nat) (h0 : TExt t0 w.tv) :
    TExt t0 (w.pyWaitInterruptible a fs p e).tv := by unfold pyWaitInterruptible; tx h0
theorem pyResume_text {t0 : TV} (a : ActId) (fs : List (Frame Rat)) (p : Nat) (what : List Int) (e : Option ExnId) (h0 : TExt t0 w.tv) :
    TExt t0 (w.pyResume a fs p what e).tv := by unfold pyResume; tx h0
theorem pyCheckContinue_text {t0 : TV} (a : ActId) (fs : List (Frame Rat)) (e : Nat) (un : List Nat) (obs : Nat) (h0 : TExt t0 w.tv) :
    TExt t0 (w.pyCheckContinue a fs e un obs).tv := by unfold pyCheckContinue; tx h0
tvlemma tv_pyCondFail (a : ActId) (fs : List (Frame Rat)) (e m : Nat) : w.pyCondFail a fs e m := by unfold pyCondFail; tv_a
theorem pyGenStep_text {t0 : TV} (a : ActId) (fs : List (Frame Rat)) (p : Nat) (h0 : TExt t0 w.tv) :
    TExt t0 (w.pyGenStep a fs p).tv := by unfold pyGenStep; tx h0
end World
end USim.Machine
