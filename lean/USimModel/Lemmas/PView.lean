import USimModel.Lemmas.KView
/-!
# The pending view of the whole machine: the current time step is a FIFO queue

`w.pending` is the deque of the current time step (`Loop._pending` in loop.py).  Function by function (the inventory of
`Lemmas/KView.lean` once more) this file shows that code running inside one activation only **appends** to it (`PExt`);
`Props/MachineFifo.lean` adds that the loop only takes from its **front**.  Together: within a time step activations
run in the order in which they were scheduled - for every program.
-/
set_option linter.unusedVariables false
set_option linter.unusedSimpArgs false
namespace USim.Machine
open TimeLike USim.Prim.Kernel Lean

/-- the pending list only grew at its end -/
def PExt (p p' : List Activation) : Prop := ∃ l, p' = p ++ l

theorem PExt.refl (p : List Activation) : PExt p p := ⟨[], by simp⟩
theorem PExt.snoc {p p' : List Activation} (h : PExt p p') (a : Activation) : PExt p (p' ++ [a]) := by
  obtain ⟨l, rfl⟩ := h; exact ⟨l ++ [a], by simp⟩

namespace World
variable (w : World Rat)

/-! ### primitives that do not touch the pending list -/
@[simp, pvsimp] theorem pv_setSig (s : SigId) (f : Sig → Sig) : (w.setSig s f).pending = w.pending := rfl
@[simp, pvsimp] theorem pv_setCond (s : CondId) (f : Cond Rat → Cond Rat) : (w.setCond s f).pending = w.pending := rfl
@[simp, pvsimp] theorem pv_setAct (s : ActId) (f : Activity Rat → Activity Rat) : (w.setAct s f).pending = w.pending := rfl
@[simp, pvsimp] theorem pv_setTask (s : TaskId) (f : Task → Task) : (w.setTask s f).pending = w.pending := rfl
@[simp, pvsimp] theorem pv_setScope (s : ScopeId) (f : Scope → Scope) : (w.setScope s f).pending = w.pending := rfl
@[simp, pvsimp] theorem pv_newExn (c : ExnCls) : ((w.newExn c).1).pending = w.pending := rfl
@[simp, pvsimp] theorem pv_newSig (k : SigKind) : ((w.newSig k).1).pending = w.pending := rfl
@[simp, pvsimp] theorem pv_newCond (k : CondKind Rat) : ((w.newCond k).1).pending = w.pending := rfl
@[simp, pvsimp] theorem pv_newAct (fs : List (Frame Rat)) (r : Bool) (l : Int) : ((w.newAct fs r l).1).pending = w.pending := rfl
@[simp, pvsimp] theorem pv_revoke (s : SigId) : (w.revoke s).pending = w.pending := rfl
@[simp, pvsimp] theorem pv_emit (a : ActId) (t : String) (l : List Int) : (w.emit a t l).pending = w.pending := rfl
@[simp, pvsimp] theorem pv_emitAs (a : ActId) (lb : Int) (t : String) (l : List Int) : (w.emitAs a lb t l).pending = w.pending := rfl
@[simp, pvsimp] theorem pv_setFrames (a : ActId) (fs : List (Frame Rat)) : (w.setFrames a fs).pending = w.pending := rfl
@[simp, pvsimp] theorem pv_setPyEv (e : Nat) (f : PyEvent → PyEvent) : (w.setPyEv e f).pending = w.pending := rfl
@[simp, pvsimp] theorem pv_setPyProc (e : Nat) (f : PyProc Rat → PyProc Rat) : (w.setPyProc e f).pending = w.pending := rfl
@[simp, pvsimp] theorem pv_pyBind (x : Name) (e : Nat) : (w.pyBind x e).pending = w.pending := rfl
@[simp, pvsimp] theorem pv_newFlag  : (w.newFlag.1).pending = w.pending := rfl
@[simp, pvsimp] theorem pv_pyNewEvent (k : PyKind) : ((w.pyNewEvent k).1).pending = w.pending := rfl
@[simp, pvsimp] theorem pv_setMode (m : Mode) : (w.setMode m).pending = w.pending := by unfold setMode; split <;> rfl
@[simp, pvsimp] theorem pv_emitScope (a : ActId) (s : ScopeId) (t : String) (l : List Int) : (w.emitScope a s t l).pending = w.pending := by
  unfold emitScope; split <;> rfl

theorem pext_foldl {α} {p0 : List Activation} (f : World Rat → α → World Rat)
    (h : ∀ w x, PExt p0 w.pending → PExt p0 (f w x).pending) (l : List α) :
    ∀ (w : World Rat), PExt p0 w.pending → PExt p0 (l.foldl f w).pending := by
  induction l with
  | nil => intro w h0; exact h0
  | cons x xs ih => intro w h0; exact ih _ (h w x h0)

theorem pext_foldl_pair {α β} {p0 : List Activation} (f : World Rat × β → α → World Rat × β)
    (h : ∀ p x, PExt p0 p.1.pending → PExt p0 (f p x).1.pending) (l : List α) :
    ∀ (p : World Rat × β), PExt p0 p.1.pending → PExt p0 (l.foldl f p).1.pending := by
  induction l with
  | nil => intro w h0; exact h0
  | cons x xs ih => intro w h0; exact ih _ (h w x h0)

@[pvsimp] theorem pv_ite (c : Prop) [Decidable c] (a b : World Rat) : (if c then a else b).pending = if c then a.pending else b.pending := by
  split <;> rfl

/-- one backward step for a goal `PExt p0 (f w ..).pending` (or `(f w ..).1.pending`): apply the lemma `f_pext` of the
function at the head of the world term (dispatch by name - trying forty lemmas one after the other is slow) -/
elab "px_apply" : tactic => do
  let g ← Lean.Elab.Tactic.getMainGoal
  let t := (← Lean.instantiateMVars (← g.getType)).cleanupAnnotations
  let some x := t.getAppArgs.back? | throwError "px_apply: not an application"
  let some x := x.cleanupAnnotations.getAppArgs.back? | throwError "px_apply: no world term"
  let x := x.cleanupAnnotations
  let x := if x.isAppOf ``Prod.fst then x.getAppArgs.back?.getD x else x
  match x.getAppFn with
  | .const n _ =>
    if n == ``List.foldl then
      -- a fold over worlds: every step appends (the step function is handled by the same tactic)
      Lean.Elab.Tactic.evalTactic (← `(tactic| (refine pext_foldl _ (fun w x h => ?_) _ _ ?_ <;> try (dsimp only))))
      return
    let lem := n.appendAfter "_pext"
    if (← Lean.getEnv).contains lem then
      Lean.Elab.Tactic.evalTactic (← `(tactic| apply $(Lean.mkIdent lem)))
    else throwError "px_apply: no lemma {lem}"
  | _ => throwError "px_apply: head is not a constant"

theorem scheduleNow_pext {p0 : List Activation} (a : ActId) (s : Option SigId) (h0 : PExt p0 w.pending) :
    PExt p0 (w.scheduleNow a s).pending := by
  unfold scheduleNow
  cases s <;> exact h0.snoc _

theorem schedule_pext {p0 : List Activation} {a : ActId} {s : Option SigId} {wh : When Rat} {w w' : World Rat}
    (h : w.schedule a s wh = some w') (h0 : PExt p0 w.pending) : PExt p0 w'.pending := by
  unfold schedule at h
  cases wh with
  | now => simp only [Option.some.injEq] at h; subst h; cases s <;> exact h0.snoc _
  | delay d =>
    simp only at h
    split at h
    · exact absurd h (by simp)
    · simp only [Option.some.injEq] at h; subst h; cases s <;> exact h0
  | at_ t =>
    simp only at h
    split at h
    · exact absurd h (by simp)
    · simp only [Option.some.injEq] at h; subst h; cases s <;> exact h0


/-- `buildNorm` / `buildCond` create condition objects only -/
theorem pv_buildNorm_both :
    (∀ (w : World Rat) (c : CExpr Rat), ∀ w' i, w.buildNorm c = some (w', i) → w'.pending = w.pending) ∧
    (∀ (w : World Rat) (cs : List (CExpr Rat)), ∀ w' is, w.buildNorms cs = some (w', is) → w'.pending = w.pending) := by
  apply World.buildNorm.mutual_induct
  case case4 =>
    intro w c h1 h2 w' i h
    cases c <;> first | (exact (h1 _ rfl).elim) | (exact (h2 _ rfl).elim) | (simp [buildNorm] at h)
  case case12 =>
    intro w cs ih w' i h
    simp only [buildNorm, Option.map_eq_some_iff, Prod.exists] at h
    obtain ⟨w1, ids, h1, h2⟩ := h
    have := ih w1 ids h1
    have e : w' = (w1.newCond (.all ids)).1 := by rw [h2]
    rw [e, pv_newCond, this]
  case case13 =>
    intro w cs ih w' i h
    simp only [buildNorm, Option.map_eq_some_iff, Prod.exists] at h
    obtain ⟨w1, ids, h1, h2⟩ := h
    have := ih w1 ids h1
    have e : w' = (w1.newCond (.any ids)).1 := by rw [h2]
    rw [e, pv_newCond, this]
  case case18 =>
    intro w a b iha ihb w' i h
    simp only [buildNorm, Option.bind_eq_some_iff, Option.map_eq_some_iff, Prod.exists] at h
    obtain ⟨w1, ia, h1, w2, ib, h2, h3⟩ := h
    have e := congrArg Prod.fst h3
    simp only at e
    rw [← e, pv_newCond, ihb (w1, ia) w2 ib h2, iha w1 ia h1]
  case case19 =>
    intro w a b iha ihb w' i h
    simp only [buildNorm, Option.bind_eq_some_iff, Option.map_eq_some_iff, Prod.exists] at h
    obtain ⟨w1, ia, h1, w2, ib, h2, h3⟩ := h
    have e := congrArg Prod.fst h3
    simp only at e
    rw [← e, pv_newCond, ihb (w1, ia) w2 ib h2, iha w1 ia h1]
  case case21 =>
    intro w c cs ih2 ih1 w' is h
    simp only [buildNorms, Option.bind_eq_some_iff, Option.map_eq_some_iff, Prod.exists, Prod.mk.injEq] at h
    obtain ⟨w1, i1, h1, w2, is2, h2, rfl, _⟩ := h
    rw [ih1 w1 w2 is2 h2, ih2 w1 i1 h1]
  all_goals intros
  all_goals rename_i h
  all_goals (simp only [buildNorm, buildNorms, Option.map_eq_some_iff, Option.some.injEq, Prod.mk.injEq] at h)
  all_goals (try obtain ⟨_, _, h⟩ := h)
  all_goals (try split at h)
  all_goals (try simp only [Prod.mk.injEq] at h)
  all_goals (try (obtain ⟨rfl, _⟩ := h; rfl))
  all_goals (first | rfl | (subst_vars; rfl))

theorem pv_buildCond {w w' : World Rat} {c : CExpr Rat} {i : CondId} (h : w.buildCond c = some (w', i)) : w'.pending = w.pending := by
  unfold buildCond at h
  simp only [Option.bind_eq_some_iff] at h
  obtain ⟨_, _, h⟩ := h
  exact pv_buildNorm_both.1 _ _ _ _ h

/-- lemmas of functions that return `Option (World _)`: applied to a hypothesis `_ = some w'` (rules added below) -/
syntax "px_hyp" : tactic
macro_rules | `(tactic| px_hyp) => `(tactic| fail "no hypothesis lemma applies")

/-- backward chaining for goals `PExt p0 (f w ..).pending` from a hypothesis `h : PExt p0 w.pending` -/
syntax "px " ident : tactic
macro_rules
  | `(tactic| px $h:ident) => `(tactic| (repeat' (first
      | (with_reducible exact $h)
      | (with_reducible assumption)
      | (simp only [pvsimp, ite_self]; with_reducible exact $h)
      | (simp only [pvsimp, ite_self]; with_reducible assumption)
      | (have hb := pv_buildCond ‹_ = some (_, _)›; simp only [pvsimp, hb]; with_reducible exact $h)
      | (have hb := pv_buildCond ‹_ = some (_, _)›; rw [hb]; with_reducible exact $h)
      | (simp only [pvsimp, ite_self])
      | (have hfst := congrArg Prod.fst ‹_ = (_, _)›; dsimp only at hfst; subst hfst)
      | (refine schedule_pext ‹_ = some _› ?_)
      | px_hyp
      | px_apply
      | split
      | (dsimp only; split))))

theorem retTo_pext {p0 : List Activation} (a : ActId) (fs : List (Frame Rat)) (v : Val) (h0 : PExt p0 w.pending) :
    PExt p0 (w.retTo a fs v).pending := by unfold retTo; px h0
theorem raiseTo_pext {p0 : List Activation} (a : ActId) (fs : List (Frame Rat)) (e : ExnId) (h0 : PExt p0 w.pending) :
    PExt p0 (w.raiseTo a fs e).pending := by unfold raiseTo; px h0
theorem raiseNew_pext {p0 : List Activation} (a : ActId) (fs : List (Frame Rat)) (c : ExnCls) (h0 : PExt p0 w.pending) :
    PExt p0 (w.raiseNew a fs c).pending := by unfold raiseNew; px h0
theorem hibernate_pext {p0 : List Activation} (a : ActId) (fs : List (Frame Rat)) (h0 : PExt p0 w.pending) :
    PExt p0 (w.hibernate a fs).pending := by unfold hibernate; px h0
theorem finishAct_pext {p0 : List Activation} (a : ActId) (m : Mode) (h0 : PExt p0 w.pending) :
    PExt p0 (w.finishAct a m).pending := by unfold finishAct; px h0
theorem awakeAll_pext {p0 : List Activation} (c : CondId) (h0 : PExt p0 w.pending) :
    PExt p0 (w.awakeAll c).pending := by
  unfold awakeAll
  simp only []
  exact pext_foldl _ (fun w x h => scheduleNow_pext w _ _ h) _ _ (by px h0)
theorem awakeNext_pext {p0 : List Activation} (c : CondId) (h0 : PExt p0 w.pending) :
    PExt p0 ((w.awakeNext c).1).pending := by unfold awakeNext; px h0
theorem setDone_pext {p0 : List Activation} (t : TaskId) (h0 : PExt p0 w.pending) :
    PExt p0 (w.setDone t).pending := by unfold setDone; px h0
theorem childFinished_pext {p0 : List Activation} (t : TaskId) (f : Bool) (h0 : PExt p0 w.pending) :
    PExt p0 (w.childFinished t f).pending := by unfold childFinished; px h0
theorem taskFinalize_pext {p0 : List Activation} (t : TaskId) (h0 : PExt p0 w.pending) :
    PExt p0 (w.taskFinalize t).pending := by
  unfold taskFinalize
  simp only []
  apply setDone_pext
  exact pext_foldl _ (fun w x h => by px h) _ _ h0
theorem newConcurrent_pext {p0 : List Activation} (c : List ExnId) (h0 : PExt p0 w.pending) :
    PExt p0 ((w.newConcurrent c).1).pending := by unfold newConcurrent; px h0
theorem propagateExceptions_pext {p0 : List Activation} (s : ScopeId) (e : Option ExnId) (h0 : PExt p0 w.pending) :
    PExt p0 ((w.propagateExceptions s e).1).pending := by unfold propagateExceptions; px h0
theorem condSubscribe_pext {p0 : List Activation} (c : CondId) (a : ActId) (s : SigId) (h0 : PExt p0 w.pending) :
    PExt p0 (w.condSubscribe c a s).pending := by unfold condSubscribe; px h0
theorem plainUnsubscribe_pext {p0 : List Activation} (c : CondId) (a : ActId) (s : SigId) (h0 : PExt p0 w.pending) :
    PExt p0 ((w.plainUnsubscribe c a s).1).pending := by unfold plainUnsubscribe; px h0
theorem unsubscribe_pext {p0 : List Activation} (c : CondId) (a : ActId) (s : SigId) (h0 : PExt p0 w.pending) :
    PExt p0 ((w.unsubscribe c a s).1).pending := by unfold unsubscribe; px h0
theorem doPostpone_pext {p0 : List Activation} (a : ActId) (fs : List (Frame Rat)) (h0 : PExt p0 w.pending) :
    PExt p0 (w.doPostpone a fs).pending := by unfold doPostpone; px h0

theorem ensureTrigger_pext {p0 : List Activation} {c : CondId} {w w' : World Rat} (h : w.ensureTrigger c = some w')
    (h0 : PExt p0 w.pending) : PExt p0 w'.pending := by
  unfold ensureTrigger at h
  split at h
  · exact schedule_pext h (by px h0)
  · cases h; exact h0

macro_rules | `(tactic| px_hyp) => `(tactic| refine ensureTrigger_pext ‹_ = some _› ?_)

theorem subscribe_pext {p0 : List Activation} {c : CondId} {a : ActId} {s : SigId} {w w' : World Rat} (h : w.subscribe c a s = some w')
    (h0 : PExt p0 w.pending) : PExt p0 w'.pending := by
  unfold subscribe at h
  split at h
  · cases h; px h0
  · exact schedule_pext h (by px h0)
  · split at h
    · cases h; px h0
    · simp only [Option.map_eq_some_iff] at h
      obtain ⟨w1, h1, rfl⟩ := h
      have h2 := ensureTrigger_pext h1 h0
      px h2
  · split at h
    · cases h; px h0
    · split at h
      · cases h; px h0
      · simp only [Option.map_eq_some_iff] at h
        obtain ⟨w1, h1, rfl⟩ := h
        have h2 := ensureTrigger_pext h1 h0
        px h2
  · cases h; px h0

macro_rules | `(tactic| px_hyp) => `(tactic| refine subscribe_pext ‹_ = some _› ?_)

theorem doSuspend_pext {p0 : List Activation} (a : ActId) (fs : List (Frame Rat)) (wh : When Rat) (h0 : PExt p0 w.pending) :
    PExt p0 (w.doSuspend a fs wh).pending := by unfold doSuspend; px h0
theorem doNotifAwait_pext {p0 : List Activation} (a : ActId) (fs : List (Frame Rat)) (c : CondId) (h0 : PExt p0 w.pending) :
    PExt p0 (w.doNotifAwait a fs c).pending := by unfold doNotifAwait; px h0
theorem doCondAwait_pext {p0 : List Activation} (a : ActId) (fs : List (Frame Rat)) (c : CondId) (h0 : PExt p0 w.pending) :
    PExt p0 (w.doCondAwait a fs c).pending := by unfold doCondAwait; px h0
theorem lockRelease_pext {p0 : List Activation} (l : Name) (h0 : PExt p0 w.pending) :
    PExt p0 (w.lockRelease l).pending := by unfold lockRelease; px h0
theorem beginClose_pext {p0 : List Activation} (a : ActId) (fs : List (Frame Rat)) (s : ScopeId) (o : Option ExnId) (g : Bool) (h0 : PExt p0 w.pending) :
    PExt p0 (w.beginClose a fs s o g).pending := by unfold beginClose; px h0
theorem continueClose_pext {p0 : List Activation} (a : ActId) (fs : List (Frame Rat)) (s : ScopeId) (todo : List TaskId) (r : ExnId) (v : Bool) (o : Option ExnId) (g : Bool) (h0 : PExt p0 w.pending) :
    PExt p0 (w.continueClose a fs s todo r v o g).pending := by unfold continueClose; px h0
theorem queueGetEnter_pext {p0 : List Activation} (a : ActId) (fs : List (Frame Rat)) (q : Name) (h0 : PExt p0 w.pending) :
    PExt p0 (w.queueGetEnter a fs q).pending := by unfold queueGetEnter; px h0
theorem lockAcquired_pext {p0 : List Activation} (a : ActId) (fs : List (Frame Rat)) (l : Name) (c : LockCont Rat) (h0 : PExt p0 w.pending) :
    PExt p0 (w.lockAcquired a fs l c).pending := by unfold lockAcquired; px h0
theorem acquireLock_pext {p0 : List Activation} (a : ActId) (fs : List (Frame Rat)) (l : Name) (c : LockCont Rat) (h0 : PExt p0 w.pending) :
    PExt p0 (w.acquireLock a fs l c).pending := by unfold acquireLock; px h0
theorem setLevels_pext {p0 : List Activation} (r : Name) (lv : List Int) (h0 : PExt p0 w.pending) :
    PExt p0 (w.setLevels r lv).pending := by
  unfold setLevels
  simp only []
  exact pext_foldl _ (fun w x h => by split; exact awakeAll_pext w _ h; exact h) _ _ (by px h0)
theorem setTrackedValue_pext {p0 : List Activation} (x : Name) (v : Int) (h0 : PExt p0 w.pending) :
    PExt p0 (w.setTrackedValue x v).pending := by
  unfold setTrackedValue
  simp only []
  exact pext_foldl _ (fun w x h => by split; exact awakeAll_pext w _ h; exact h) _ _ (by px h0)
theorem throttle_pext {p0 : List Activation} (p : Name) (h0 : PExt p0 w.pending) :
    PExt p0 (w.throttle p).pending := by unfold throttle; px h0
theorem pipeFinish_pext {p0 : List Activation} (p : Name) (i : Nat) (h0 : PExt p0 w.pending) :
    PExt p0 (w.pipeFinish p i).pending := by unfold pipeFinish; px h0
theorem pipeWindowStart_pext {p0 : List Activation} (a : ActId) (fs : List (Frame Rat)) (p : Name) (i : Nat) (t1 t2 t3 : Rat) (h0 : PExt p0 w.pending) :
    PExt p0 (w.pipeWindowStart a fs p i t1 t2 t3).pending := by unfold pipeWindowStart; px h0
theorem tickNext_pext {p0 : List Activation} (a : ActId) (fs : List (Frame Rat)) (b : Bool) (p l : Rat) (n : Nat) (body : List (Stmt Rat)) (h0 : PExt p0 w.pending) :
    PExt p0 (w.tickNext a fs b p l n body).pending := by unfold tickNext; px h0
theorem borrowEnter_pext {p0 : List Activation} (a : ActId) (fs : List (Frame Rat)) (r : Name) (am : List Int) (bind : Name) (body : List (Stmt Rat)) (c : Bool) (h0 : PExt p0 w.pending) :
    PExt p0 (w.borrowEnter a fs r am bind body c).pending := by unfold borrowEnter; px h0
theorem flagForceSet_pext {p0 : List Activation} (c : CondId) (h0 : PExt p0 w.pending) :
    PExt p0 (w.flagForceSet c).pending := by unfold flagForceSet; px h0
theorem pyScopeDo_pext {p0 : List Activation} (sid : ScopeId) (prog : List (Stmt Rat)) (after : Option Rat) (h0 : PExt p0 w.pending) :
    PExt p0 ((w.pyScopeDo sid prog after).1).pending := by unfold pyScopeDo; px h0
theorem pySchedule_pext {p0 : List Activation} (prog : List (Stmt Rat)) (d : Option Rat) (h0 : PExt p0 w.pending) :
    PExt p0 ((w.pySchedule prog d).1).pending := by unfold pySchedule; px h0
theorem pyTrigger_pext {p0 : List Activation} (e : Nat) (h0 : PExt p0 w.pending) :
    PExt p0 ((w.pyTrigger e).1).pending := by unfold pyTrigger; px h0
theorem pySetValue_pext {p0 : List Activation} (e : Nat) (v : Int × Option ExnId) (cv : List Nat) (h0 : PExt p0 w.pending) :
    PExt p0 ((w.pySetValue e v cv).1).pending := by unfold pySetValue; px h0
theorem pyInterrupt_pext {p0 : List Activation} (p : Nat) (c : Int) (h0 : PExt p0 w.pending) :
    PExt p0 (w.pyInterrupt p c).pending := by unfold pyInterrupt; px h0
theorem pySync_pext {p0 : List Activation} (a : ActId) (lbl : Int) (i : PyInstr Rat) (h0 : PExt p0 w.pending) :
    PExt p0 ((w.pySync a lbl i).1).pending := by unfold pySync; px h0
theorem pyWaitInterruptible_pext {p0 : List Activation} (a : ActId) (fs : List (Frame Rat)) (p e : Nat) (h0 : PExt p0 w.pending) :
    PExt p0 (w.pyWaitInterruptible a fs p e).pending := by unfold pyWaitInterruptible; px h0
theorem pyResume_pext {p0 : List Activation} (a : ActId) (fs : List (Frame Rat)) (p : Nat) (what : List Int) (e : Option ExnId) (h0 : PExt p0 w.pending) :
    PExt p0 (w.pyResume a fs p what e).pending := by unfold pyResume; px h0
theorem pyCheckContinue_pext {p0 : List Activation} (a : ActId) (fs : List (Frame Rat)) (e : Nat) (un : List Nat) (obs : Nat) (h0 : PExt p0 w.pending) :
    PExt p0 (w.pyCheckContinue a fs e un obs).pending := by unfold pyCheckContinue; px h0
theorem pyCondFail_pext {p0 : List Activation} (a : ActId) (fs : List (Frame Rat)) (e m : Nat) (h0 : PExt p0 w.pending) :
    PExt p0 (w.pyCondFail a fs e m).pending := by unfold pyCondFail; px h0
theorem pyGenStep_pext {p0 : List Activation} (a : ActId) (fs : List (Frame Rat)) (p : Nat) (h0 : PExt p0 w.pending) :
    PExt p0 (w.pyGenStep a fs p).pending := by unfold pyGenStep; px h0

end World
end USim.Machine
