import USimModel.Lemmas.TStepFrames
/-!
# One transition of the running activity, seen from the trace

Every statement, every frame that gets a value or an exception keeps the clock and only prepends events stamped with
it (`TExt`) - except the statement that starts a nested `run()`.  Derived from `KStep.lean`.
-/
set_option linter.unusedVariables false
set_option linter.unusedSimpArgs false
namespace USim.Machine
open TimeLike USim.Prim.Kernel
namespace World
variable (w : World Rat)

/-! ### statements -/

theorem execStmt_scope_text {t0 : TV} (a : ActId) (fs : List (Frame Rat)) (name : Name) (untilN : Option (NExpr Rat))
    (body : List (Stmt Rat)) (h0 : TExt t0 w.tv) : TExt t0 (w.execStmt a fs (.scope name untilN body)).tv := by
  simp only [execStmt]
  split
  · tx h0
  · rename_i w1 notif hb
    have h1 : w1.tv = w.tv := by
      split at hb
      · cases hb; rfl
      · simp only [Option.map_eq_some_iff, Prod.exists, Prod.mk.injEq] at hb
        obtain ⟨w2, c2, hb, rfl, _⟩ := hb
        exact tv_buildCond hb
      · split at hb <;> (cases hb; rfl)
    have h0' : TExt t0 w1.tv := by rw [h1]; exact h0
    clear hb
    cases notif <;> tx h0'

theorem text_foldl {α} {t0 : TV} (f : World Rat → α → World Rat) (h : ∀ w x, TExt t0 w.tv → TExt t0 (f w x).tv) (l : List α) :
    ∀ (w : World Rat), TExt t0 w.tv → TExt t0 (l.foldl f w).tv := by
  induction l with
  | nil => intro w h0; exact h0
  | cons x xs ih => intro w h0; exact ih _ (h w x h0)

theorem execStmt_callbacks_text {t0 : TV} (a : ActId) (fs : List (Frame Rat)) (e : Nat) (h0 : TExt t0 w.tv) :
    TExt t0 (w.execStmt a fs (.pyInvokeCallbacks e)).tv := by
  simp only [execStmt]
  split
  · rename_i v exn cbs hv hc
    have h1 := text_foldl (t0 := t0) (fun (w : World Rat) (cb : PyCb) => match cb with
        | .log k => w.emitAs a (4000 + (e : Int)) "cb" [k]) (by intro w x h; cases x; exact emitAs_text w _ _ _ _ h) cbs
        (w.setPyEv e (fun x => { x with callbacks := none })) (by tx h0)
    cases exn <;> tx h1
  · tx h0

set_option maxHeartbeats 1600000 in
theorem execStmt_text {t0 : TV} (a : ActId) (fs : List (Frame Rat)) (s : Stmt Rat)
    (hs : ∀ progs start, s ≠ .nestedRun progs start) (h0 : TExt t0 w.tv) : TExt t0 (w.execStmt a fs s).tv := by
  cases s
  case scope name untilN body => exact execStmt_scope_text w a fs name untilN body h0
  case nestedRun progs start => exact (hs _ _ rfl).elim
  case pyInvokeCallbacks e => exact execStmt_callbacks_text w a fs e h0
  all_goals (simp only [execStmt]; tx h0)

/-! ### frames that need an induction -/

theorem stepRet_sub_text {t0 : TV} (a : ActId) (l : List CondId) : ∀ (w : World Rat) (acc : List (CondId × SigId)) w' subs,
    World.stepRet.sub a w acc l = some (w', subs) → TExt t0 w.tv → TExt t0 w'.tv := by
  induction l with
  | nil => intro w acc w' subs h h0; simp only [stepRet.sub, Option.some.injEq, Prod.mk.injEq] at h; obtain ⟨rfl, _⟩ := h; exact h0
  | cons ch rest ih =>
    intro w acc w' subs h h0
    simp only [stepRet.sub] at h
    split at h
    · exact ih _ _ _ _ h h0
    · split at h
      · rename_i w1 hs
        exact ih _ _ _ _ h (subscribe_text hs (by tx h0))
      · cases h

theorem stepRetT_connStart {t0 : TV} (a : ActId) (fs : List (Frame Rat)) (v : Val) (c : CondId) (h0 : TExt t0 w.tv) :
    TExt t0 (w.stepRet a (.connStart c) fs v).tv := by
  simp only [stepRet]
  split
  · tx h0
  · split
    · rename_i w1 subs hs
      have := stepRet_sub_text a _ _ _ _ _ hs h0
      tx this
    · tx h0

theorem tv_foldl_pair {α β} (f : World Rat × β → α → World Rat × β) (h : ∀ p x, (f p x).1.tv = p.1.tv) (l : List α)
    (p : World Rat × β) : (l.foldl f p).1.tv = p.1.tv := by
  induction l generalizing p with
  | nil => rfl
  | cons x xs ih => simp only [List.foldl_cons, ih, h]

theorem stepRaiseT_connHib {t0 : TV} (a : ActId) (fs : List (Frame Rat)) (e : ExnId) (c : CondId) (subs : List (CondId × SigId))
    (h0 : TExt t0 w.tv) : TExt t0 (w.stepRaise a (.connHib c subs) fs e).tv := by
  simp only [stepRaise]
  have hk : ∀ (l : List (CondId × SigId)) (p : World Rat × Bool),
      (l.foldl (fun (p : World Rat × Bool) (q : CondId × SigId) =>
        let (w, sw) := p
        let sw := sw || (w.sig q.2).exn == e
        ((w.unsubscribe q.1 a q.2).1, sw)) p).1.tv = p.1.tv :=
    fun l p => tv_foldl_pair _ (by intro p x; exact tv_unsubscribe _ _ _ _) l p
  have h1 := hk subs.reverse (w, false)
  have h0' : TExt t0 (subs.reverse.foldl (fun (p : World Rat × Bool) (q : CondId × SigId) =>
        let (w, sw) := p
        let sw := sw || (w.sig q.2).exn == e
        ((w.unsubscribe q.1 a q.2).1, sw)) (w, false)).1.tv := by rw [h1]; exact h0
  split <;> tx h0'

theorem stepRetT_lockBody {t0 : TV} (a : ActId) (fs : List (Frame Rat)) (v : Val) (l : Name) (user : Bool) (h0 : TExt t0 w.tv) :
    TExt t0 (w.stepRet a (.lockBody l user) fs v).tv := by
  cases user <;> simp only [stepRet, ↓reduceIte, Bool.false_eq_true] <;> tx h0

theorem stepRaiseT_lockBody {t0 : TV} (a : ActId) (fs : List (Frame Rat)) (e : ExnId) (l : Name) (user : Bool) (h0 : TExt t0 w.tv) :
    TExt t0 (w.stepRaise a (.lockBody l user) fs e).tv := by
  cases user <;> simp only [stepRaise, ↓reduceIte, Bool.false_eq_true] <;> tx h0

/-! ### the two case analyses -/

theorem stepRet_text {t0 : TV} (a : ActId) (f : Frame Rat) (fs : List (Frame Rat)) (v : Val)
    (hf : ∀ progs start ss, f ≠ .seq (.nestedRun progs start :: ss)) (h0 : TExt t0 w.tv) : TExt t0 (w.stepRet a f fs v).tv := by
  cases f with
  | seq l =>
    cases l with
    | nil => simp only [stepRet]; tx h0
    | cons s ss =>
      simp only [stepRet]
      exact execStmt_text w a _ s (fun p st h => hf p st ss (by rw [h])) h0
  | connStart c => exact stepRetT_connStart w a fs v c h0
  | lockBody l u => exact stepRetT_lockBody w a fs v l u h0
  | wakeHib x0 => exact stepRetT_wakeHib w a fs v x0 h0
  | notifHib x0 x1 => exact stepRetT_notifHib w a fs v x0 x1 h0
  | foreverHib  => exact stepRetT_foreverHib w a fs v  h0
  | awaitMark x0 => exact stepRetT_awaitMark w a fs v x0 h0
  | sleepMark  => exact stepRetT_sleepMark w a fs v  h0
  | tickEnd  => exact stepRetT_tickEnd w a fs v  h0
  | condLoop x0 => exact stepRetT_condLoop w a fs v x0 h0
  | connHib x0 x1 => exact stepRetT_connHib w a fs v x0 x1 h0
  | retVal x0 => exact stepRetT_retVal w a fs v x0 h0
  | retTrue  => exact stepRetT_retTrue w a fs v  h0
  | taskResult x0 x1 => exact stepRetT_taskResult w a fs v x0 x1 h0
  | taskStart x0 x1 x2 x3 => exact stepRetT_taskStart w a fs v x0 x1 x2 x3 h0
  | taskPayload x0 => exact stepRetT_taskPayload w a fs v x0 h0
  | scopeBody x0 => exact stepRetT_scopeBody w a fs v x0 h0
  | scopeExitSet x0 => exact stepRetT_scopeExitSet w a fs v x0 h0
  | scopeExitWait x0 x1 => exact stepRetT_scopeExitWait w a fs v x0 x1 h0
  | tryBlock x0 => exact stepRetT_tryBlock w a fs v x0 h0
  | finallyBlock x0 => exact stepRetT_finallyBlock w a fs v x0 h0
  | reraise x0 => exact stepRetT_reraise w a fs v x0 h0
  | closeResume  => exact stepRetT_closeResume w a fs v  h0
  | lockWait x0 x1 => exact stepRetT_lockWait w a fs v x0 x1 h0
  | qGetPop x0 => exact stepRetT_qGetPop w a fs v x0 h0
  | gotValue  => exact stepRetT_gotValue w a fs v  h0
  | cGotValue x0 x1 => exact stepRetT_cGotValue w a fs v x0 x1 h0
  | qIterNext x0 x1 x2 => exact stepRetT_qIterNext w a fs v x0 x1 x2 h0
  | qIterGot x0 x1 x2 => exact stepRetT_qIterGot w a fs v x0 x1 x2 h0
  | cGetWait x0 x1 => exact stepRetT_cGetWait w a fs v x0 x1 h0
  | cIterLoop x0 x1 x2 x3 => exact stepRetT_cIterLoop w a fs v x0 x1 x2 x3 h0
  | cIterWait x0 x1 x2 x3 => exact stepRetT_cIterWait w a fs v x0 x1 x2 x3 h0
  | cIterNext x0 x1 x2 => exact stepRetT_cIterNext w a fs v x0 x1 x2 h0
  | borrowWait x0 x1 x2 => exact stepRetT_borrowWait w a fs v x0 x1 x2 h0
  | borrowRemoved x0 x1 x2 => exact stepRetT_borrowRemoved w a fs v x0 x1 x2 h0
  | borrowInserted x0 x1 x2 => exact stepRetT_borrowInserted w a fs v x0 x1 x2 h0
  | borrowBody x0 x1 => exact stepRetT_borrowBody w a fs v x0 x1 h0
  | borrowExit1 x0 x1 x2 => exact stepRetT_borrowExit1 w a fs v x0 x1 x2 h0
  | borrowExit2 x0 => exact stepRetT_borrowExit2 w a fs v x0 h0
  | resAdjust x0 x1 x2 => exact stepRetT_resAdjust w a fs v x0 x1 x2 h0
  | pipeWindow x0 x1 x2 x3 x4 x5 x6 x7 => exact stepRetT_pipeWindow w a fs v x0 x1 x2 x3 x4 x5 x6 x7 h0
  | tickWait x0 x1 x2 x3 x4 => exact stepRetT_tickWait w a fs v x0 x1 x2 x3 x4 h0
  | tickBody x0 x1 x2 x3 x4 => exact stepRetT_tickBody w a fs v x0 x1 x2 x3 x4 h0
  | collectAwait x0 x1 => exact stepRetT_collectAwait w a fs v x0 x1 h0
  | firstMonitor x0 => exact stepRetT_firstMonitor w a fs v x0 h0
  | firstNext x0 x1 x2 x3 => exact stepRetT_firstNext w a fs v x0 x1 x2 x3 h0
  | firstGot x0 x1 x2 x3 => exact stepRetT_firstGot w a fs v x0 x1 x2 x3 h0
  | firstYield x0 x1 x2 x3 => exact stepRetT_firstYield w a fs v x0 x1 x2 x3 h0
  | firstEnd x0 x1 => exact stepRetT_firstEnd w a fs v x0 x1 h0
  | pyGen x0 => exact stepRetT_pyGen w a fs v x0 h0
  | pyPayloadStart x0 => exact stepRetT_pyPayloadStart w a fs v x0 h0
  | pyPayloadLoop x0 => exact stepRetT_pyPayloadLoop w a fs v x0 h0
  | pyWaited x0 x1 => exact stepRetT_pyWaited w a fs v x0 x1 h0
  | pyNativeWaited x0 => exact stepRetT_pyNativeWaited w a fs v x0 h0
  | pyUntilEnd  => exact stepRetT_pyUntilEnd w a fs v  h0
  | pyWithEnd  => exact stepRetT_pyWithEnd w a fs v  h0
  | pyAwaited x0 => exact stepRetT_pyAwaited w a fs v x0 h0
  | pyCheckLoop x0 x1 x2 => exact stepRetT_pyCheckLoop w a fs v x0 x1 x2 h0
  | pyCode x0 => exact stepRetT_pyCode w a fs v x0 h0
  | raiseStop  => exact stepRetT_raiseStop w a fs v  h0
  | transferDone x0 => exact stepRetT_transferDone w a fs v x0 h0
  | borrowMark x0 => exact stepRetT_borrowMark w a fs v x0 h0
  | nestedRun  => exact stepRetT_nestedRun w a fs v  h0
  | taskDelay x0 x1 => exact stepRetT_taskDelay w a fs v x0 x1 h0
  | scopeClose x0 x1 x2 x3 x4 x5 => exact stepRetT_scopeClose w a fs v x0 x1 x2 x3 x4 x5 h0
  | asyncTrigger x0 => exact stepRetT_asyncTrigger w a fs v x0 h0
  | coroutineEnd  => exact stepRetT_coroutineEnd w a fs v  h0

theorem stepRaise_text {t0 : TV} (a : ActId) (f : Frame Rat) (fs : List (Frame Rat)) (e : ExnId) (h0 : TExt t0 w.tv) :
    TExt t0 (w.stepRaise a f fs e).tv := by
  cases f with
  | connHib c subs => exact stepRaiseT_connHib w a fs e c subs h0
  | lockBody l u => exact stepRaiseT_lockBody w a fs e l u h0
  | seq x0 => exact stepRaiseT_seq w a fs e x0 h0
  | wakeHib x0 => exact stepRaiseT_wakeHib w a fs e x0 h0
  | notifHib x0 x1 => exact stepRaiseT_notifHib w a fs e x0 x1 h0
  | foreverHib  => exact stepRaiseT_foreverHib w a fs e  h0
  | awaitMark x0 => exact stepRaiseT_awaitMark w a fs e x0 h0
  | sleepMark  => exact stepRaiseT_sleepMark w a fs e  h0
  | tickEnd  => exact stepRaiseT_tickEnd w a fs e  h0
  | condLoop x0 => exact stepRaiseT_condLoop w a fs e x0 h0
  | connStart x0 => exact stepRaiseT_connStart w a fs e x0 h0
  | retVal x0 => exact stepRaiseT_retVal w a fs e x0 h0
  | retTrue  => exact stepRaiseT_retTrue w a fs e  h0
  | taskResult x0 x1 => exact stepRaiseT_taskResult w a fs e x0 x1 h0
  | taskStart x0 x1 x2 x3 => exact stepRaiseT_taskStart w a fs e x0 x1 x2 x3 h0
  | taskPayload x0 => exact stepRaiseT_taskPayload w a fs e x0 h0
  | scopeBody x0 => exact stepRaiseT_scopeBody w a fs e x0 h0
  | scopeExitSet x0 => exact stepRaiseT_scopeExitSet w a fs e x0 h0
  | scopeExitWait x0 x1 => exact stepRaiseT_scopeExitWait w a fs e x0 x1 h0
  | tryBlock x0 => exact stepRaiseT_tryBlock w a fs e x0 h0
  | finallyBlock x0 => exact stepRaiseT_finallyBlock w a fs e x0 h0
  | reraise x0 => exact stepRaiseT_reraise w a fs e x0 h0
  | closeResume  => exact stepRaiseT_closeResume w a fs e  h0
  | lockWait x0 x1 => exact stepRaiseT_lockWait w a fs e x0 x1 h0
  | qGetPop x0 => exact stepRaiseT_qGetPop w a fs e x0 h0
  | gotValue  => exact stepRaiseT_gotValue w a fs e  h0
  | cGotValue x0 x1 => exact stepRaiseT_cGotValue w a fs e x0 x1 h0
  | qIterNext x0 x1 x2 => exact stepRaiseT_qIterNext w a fs e x0 x1 x2 h0
  | qIterGot x0 x1 x2 => exact stepRaiseT_qIterGot w a fs e x0 x1 x2 h0
  | cGetWait x0 x1 => exact stepRaiseT_cGetWait w a fs e x0 x1 h0
  | cIterLoop x0 x1 x2 x3 => exact stepRaiseT_cIterLoop w a fs e x0 x1 x2 x3 h0
  | cIterWait x0 x1 x2 x3 => exact stepRaiseT_cIterWait w a fs e x0 x1 x2 x3 h0
  | cIterNext x0 x1 x2 => exact stepRaiseT_cIterNext w a fs e x0 x1 x2 h0
  | borrowWait x0 x1 x2 => exact stepRaiseT_borrowWait w a fs e x0 x1 x2 h0
  | borrowRemoved x0 x1 x2 => exact stepRaiseT_borrowRemoved w a fs e x0 x1 x2 h0
  | borrowInserted x0 x1 x2 => exact stepRaiseT_borrowInserted w a fs e x0 x1 x2 h0
  | borrowBody x0 x1 => exact stepRaiseT_borrowBody w a fs e x0 x1 h0
  | borrowExit1 x0 x1 x2 => exact stepRaiseT_borrowExit1 w a fs e x0 x1 x2 h0
  | borrowExit2 x0 => exact stepRaiseT_borrowExit2 w a fs e x0 h0
  | resAdjust x0 x1 x2 => exact stepRaiseT_resAdjust w a fs e x0 x1 x2 h0
  | pipeWindow x0 x1 x2 x3 x4 x5 x6 x7 => exact stepRaiseT_pipeWindow w a fs e x0 x1 x2 x3 x4 x5 x6 x7 h0
  | tickWait x0 x1 x2 x3 x4 => exact stepRaiseT_tickWait w a fs e x0 x1 x2 x3 x4 h0
  | tickBody x0 x1 x2 x3 x4 => exact stepRaiseT_tickBody w a fs e x0 x1 x2 x3 x4 h0
  | collectAwait x0 x1 => exact stepRaiseT_collectAwait w a fs e x0 x1 h0
  | firstMonitor x0 => exact stepRaiseT_firstMonitor w a fs e x0 h0
  | firstNext x0 x1 x2 x3 => exact stepRaiseT_firstNext w a fs e x0 x1 x2 x3 h0
  | firstGot x0 x1 x2 x3 => exact stepRaiseT_firstGot w a fs e x0 x1 x2 x3 h0
  | firstYield x0 x1 x2 x3 => exact stepRaiseT_firstYield w a fs e x0 x1 x2 x3 h0
  | firstEnd x0 x1 => exact stepRaiseT_firstEnd w a fs e x0 x1 h0
  | pyGen x0 => exact stepRaiseT_pyGen w a fs e x0 h0
  | pyPayloadStart x0 => exact stepRaiseT_pyPayloadStart w a fs e x0 h0
  | pyPayloadLoop x0 => exact stepRaiseT_pyPayloadLoop w a fs e x0 h0
  | pyWaited x0 x1 => exact stepRaiseT_pyWaited w a fs e x0 x1 h0
  | pyNativeWaited x0 => exact stepRaiseT_pyNativeWaited w a fs e x0 h0
  | pyUntilEnd  => exact stepRaiseT_pyUntilEnd w a fs e  h0
  | pyWithEnd  => exact stepRaiseT_pyWithEnd w a fs e  h0
  | pyAwaited x0 => exact stepRaiseT_pyAwaited w a fs e x0 h0
  | pyCheckLoop x0 x1 x2 => exact stepRaiseT_pyCheckLoop w a fs e x0 x1 x2 h0
  | pyCode x0 => exact stepRaiseT_pyCode w a fs e x0 h0
  | raiseStop  => exact stepRaiseT_raiseStop w a fs e  h0
  | transferDone x0 => exact stepRaiseT_transferDone w a fs e x0 h0
  | borrowMark x0 => exact stepRaiseT_borrowMark w a fs e x0 h0
  | nestedRun  => exact stepRaiseT_nestedRun w a fs e  h0
  | taskDelay x0 x1 => exact stepRaiseT_taskDelay w a fs e x0 x1 h0
  | scopeClose x0 x1 x2 x3 x4 x5 => exact stepRaiseT_scopeClose w a fs e x0 x1 x2 x3 x4 x5 h0
  | asyncTrigger x0 => exact stepRaiseT_asyncTrigger w a fs e x0 h0
  | coroutineEnd  => exact stepRaiseT_coroutineEnd w a fs e  h0

end World
end USim.Machine
