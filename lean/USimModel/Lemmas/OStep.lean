import USimModel.Lemmas.OStepFrames
/-!
# One transition of the running activity respects the history of every object

Same structure as `KStep.lean` / `PStep.lean` / `SStep.lean` / `QStep.lean`, for the five object tables (`OExt`).  The
guarded writers are proved by hand: `Scope.do` (three spellings), `Queue.put` (two) and the pop of `Queue.get`.
-/
set_option linter.unusedVariables false
set_option linter.unusedSimpArgs false
namespace USim.Machine
open TimeLike USim.Prim.Kernel
namespace World
variable (w : World Rat)

theorem execStmt_scope_oext {o0 : OV} (a : ActId) (fs : List (Frame Rat)) (name : Name) (untilN : Option (NExpr Rat))
    (body : List (Stmt Rat)) (h0 : OX(o0, w)) : OX(o0, (w.execStmt a fs (.scope name untilN body))) := by
  simp only [execStmt]
  split
  · ox h0
  · rename_i w1 notif hb
    have h1 : w1.ov = w.ov := by
      split at hb
      · cases hb; rfl
      · simp only [Option.map_eq_some_iff, Prod.exists, Prod.mk.injEq] at hb
        obtain ⟨w2, c2, hb, rfl, _⟩ := hb
        exact ov_buildCond hb
      · split at hb <;> (cases hb; rfl)
    have h0' : OX(o0, w1) := oext_of_ov h1 h0
    clear hb
    cases notif <;> ox h0'

theorem execStmt_callbacks_oext {o0 : OV} (a : ActId) (fs : List (Frame Rat)) (e : Nat) (h0 : OX(o0, w)) :
    OX(o0, (w.execStmt a fs (.pyInvokeCallbacks e))) := by
  simp only [execStmt]
  split
  · rename_i v exn cbs hv hc
    have h1 := oext_foldl (o0 := o0) (fun (w : World Rat) (cb : PyCb) => match cb with
        | .log k => w.emitAs a (4000 + (e : Int)) "cb" [k]) (by intro w x h; cases x; simpa using h) cbs
        (w.setPyEv e (fun x => { x with callbacks := none })) (by ox h0)
    cases exn <;> ox h1
  · ox h0

set_option maxHeartbeats 1600000 in
theorem execStmt_oext {o0 : OV} (a : ActId) (fs : List (Frame Rat)) (s : Stmt Rat)
    (hs : ∀ progs start, s ≠ .nestedRun progs start) (h0 : OX(o0, w)) : OX(o0, (w.execStmt a fs s)) := by
  cases s
  case scope name untilN body => exact execStmt_scope_oext w a fs name untilN body h0
  case nestedRun progs start => exact (hs _ _ rfl).elim
  case pyInvokeCallbacks e => exact execStmt_callbacks_oext w a fs e h0
  all_goals (simp only [execStmt]; ox h0)

theorem stepRet_sub_oext {o0 : OV} (a : ActId) (l : List CondId) : ∀ (w : World Rat) (acc : List (CondId × SigId)) w' subs,
    World.stepRet.sub a w acc l = some (w', subs) → OX(o0, w) → OX(o0, w') := by
  induction l with
  | nil => intro w acc w' subs h h0; simp only [stepRet.sub, Option.some.injEq, Prod.mk.injEq] at h; obtain ⟨rfl, _⟩ := h; exact h0
  | cons ch rest ih =>
    intro w acc w' subs h h0
    simp only [stepRet.sub] at h
    split at h
    · exact ih _ _ _ _ h h0
    · split at h
      · rename_i w1 hs
        exact ih _ _ _ _ h (subscribe_oext hs (by ox h0))
      · cases h

theorem stepRetO_connStart {o0 : OV} (a : ActId) (fs : List (Frame Rat)) (v : Val) (c : CondId) (h0 : OX(o0, w)) :
    OX(o0, (w.stepRet a (.connStart c) fs v)) := by
  simp only [stepRet]
  split
  · ox h0
  · split
    · rename_i w1 subs hs
      have h2 := stepRet_sub_oext a _ _ _ _ _ hs h0
      ox h2
    · ox h0

theorem stepRetO_connHib {o0 : OV} (a : ActId) (fs : List (Frame Rat)) (v : Val) (c : CondId) (subs : List (CondId × SigId))
    (h0 : OX(o0, w)) : OX(o0, (w.stepRet a (.connHib c subs) fs v)) := by
  simp only [stepRet]
  have h1 := oext_foldl (o0 := o0) (fun (w : World Rat) (p : CondId × SigId) => (w.unsubscribe p.1 a p.2).1)
    (by intro w x h; exact unsubscribe_oext w _ _ _ h) subs.reverse w h0
  ox h1

theorem stepRaiseO_connHib {o0 : OV} (a : ActId) (fs : List (Frame Rat)) (e : ExnId) (c : CondId) (subs : List (CondId × SigId))
    (h0 : OX(o0, w)) : OX(o0, (w.stepRaise a (.connHib c subs) fs e)) := by
  simp only [stepRaise]
  have h1 := oext_foldl_pair (o0 := o0) (fun (p : World Rat × Bool) (q : CondId × SigId) =>
        let (w, sw) := p
        let sw := sw || (w.sig q.2).exn == e
        ((w.unsubscribe q.1 a q.2).1, sw)) (by intro p x h; exact unsubscribe_oext _ _ _ _ h) subs.reverse (w, false) h0
  split <;> ox h1

theorem stepRetO_firstMonitor {o0 : OV} (a : ActId) (fs : List (Frame Rat)) (v : Val) (x_q : Name) (h0 : OX(o0, w)) :
    OX(o0, (w.stepRet a (.firstMonitor x_q) fs v)) := by
  simp only [stepRet]
  split
  · ox h0
  · ox h0

/-! ### the two case analyses -/

theorem stepRet_oext {o0 : OV} (a : ActId) (f : Frame Rat) (fs : List (Frame Rat)) (v : Val)
    (hf : ∀ progs start ss, f ≠ .seq (.nestedRun progs start :: ss)) (h0 : OX(o0, w)) : OX(o0, (w.stepRet a f fs v)) := by
  cases f with
  | seq l =>
    cases l with
    | nil => simp only [stepRet]; ox h0
    | cons s ss =>
      simp only [stepRet]
      exact execStmt_oext w a _ s (fun p st h => hf p st ss (by rw [h])) h0
  | connStart c => exact stepRetO_connStart w a fs v c h0
  | connHib c subs => exact stepRetO_connHib w a fs v c subs h0
  | wakeHib x0 => exact stepRetO_wakeHib w a fs v x0 h0
  | notifHib x0 x1 => exact stepRetO_notifHib w a fs v x0 x1 h0
  | foreverHib  => exact stepRetO_foreverHib w a fs v  h0
  | awaitMark x0 => exact stepRetO_awaitMark w a fs v x0 h0
  | sleepMark  => exact stepRetO_sleepMark w a fs v  h0
  | tickEnd  => exact stepRetO_tickEnd w a fs v  h0
  | condLoop x0 => exact stepRetO_condLoop w a fs v x0 h0
  | retVal x0 => exact stepRetO_retVal w a fs v x0 h0
  | retTrue  => exact stepRetO_retTrue w a fs v  h0
  | taskResult x0 x1 => exact stepRetO_taskResult w a fs v x0 x1 h0
  | taskStart x0 x1 x2 x3 => exact stepRetO_taskStart w a fs v x0 x1 x2 x3 h0
  | taskPayload x0 => exact stepRetO_taskPayload w a fs v x0 h0
  | scopeBody x0 => exact stepRetO_scopeBody w a fs v x0 h0
  | scopeExitSet x0 => exact stepRetO_scopeExitSet w a fs v x0 h0
  | scopeExitWait x0 x1 => exact stepRetO_scopeExitWait w a fs v x0 x1 h0
  | tryBlock x0 => exact stepRetO_tryBlock w a fs v x0 h0
  | finallyBlock x0 => exact stepRetO_finallyBlock w a fs v x0 h0
  | reraise x0 => exact stepRetO_reraise w a fs v x0 h0
  | closeResume  => exact stepRetO_closeResume w a fs v  h0
  | lockWait x0 x1 => exact stepRetO_lockWait w a fs v x0 x1 h0
  | lockBody x0 x1 => exact stepRetO_lockBody w a fs v x0 x1 h0
  | qGetPop x0 => exact stepRetO_qGetPop w a fs v x0 h0
  | gotValue  => exact stepRetO_gotValue w a fs v  h0
  | cGotValue x0 x1 => exact stepRetO_cGotValue w a fs v x0 x1 h0
  | qIterNext x0 x1 x2 => exact stepRetO_qIterNext w a fs v x0 x1 x2 h0
  | qIterGot x0 x1 x2 => exact stepRetO_qIterGot w a fs v x0 x1 x2 h0
  | cGetWait x0 x1 => exact stepRetO_cGetWait w a fs v x0 x1 h0
  | cIterLoop x0 x1 x2 x3 => exact stepRetO_cIterLoop w a fs v x0 x1 x2 x3 h0
  | cIterWait x0 x1 x2 x3 => exact stepRetO_cIterWait w a fs v x0 x1 x2 x3 h0
  | cIterNext x0 x1 x2 => exact stepRetO_cIterNext w a fs v x0 x1 x2 h0
  | borrowWait x0 x1 x2 => exact stepRetO_borrowWait w a fs v x0 x1 x2 h0
  | borrowRemoved x0 x1 x2 => exact stepRetO_borrowRemoved w a fs v x0 x1 x2 h0
  | borrowInserted x0 x1 x2 => exact stepRetO_borrowInserted w a fs v x0 x1 x2 h0
  | borrowBody x0 x1 => exact stepRetO_borrowBody w a fs v x0 x1 h0
  | borrowExit1 x0 x1 x2 => exact stepRetO_borrowExit1 w a fs v x0 x1 x2 h0
  | borrowExit2 x0 => exact stepRetO_borrowExit2 w a fs v x0 h0
  | resAdjust x0 x1 x2 => exact stepRetO_resAdjust w a fs v x0 x1 x2 h0
  | pipeWindow x0 x1 x2 x3 x4 x5 x6 x7 => exact stepRetO_pipeWindow w a fs v x0 x1 x2 x3 x4 x5 x6 x7 h0
  | tickWait x0 x1 x2 x3 x4 => exact stepRetO_tickWait w a fs v x0 x1 x2 x3 x4 h0
  | tickBody x0 x1 x2 x3 x4 => exact stepRetO_tickBody w a fs v x0 x1 x2 x3 x4 h0
  | collectAwait x0 x1 => exact stepRetO_collectAwait w a fs v x0 x1 h0
  | firstMonitor x0 => exact stepRetO_firstMonitor w a fs v x0 h0
  | firstNext x0 x1 x2 x3 => exact stepRetO_firstNext w a fs v x0 x1 x2 x3 h0
  | firstGot x0 x1 x2 x3 => exact stepRetO_firstGot w a fs v x0 x1 x2 x3 h0
  | firstYield x0 x1 x2 x3 => exact stepRetO_firstYield w a fs v x0 x1 x2 x3 h0
  | firstEnd x0 x1 => exact stepRetO_firstEnd w a fs v x0 x1 h0
  | pyGen x0 => exact stepRetO_pyGen w a fs v x0 h0
  | pyPayloadStart x0 => exact stepRetO_pyPayloadStart w a fs v x0 h0
  | pyPayloadLoop x0 => exact stepRetO_pyPayloadLoop w a fs v x0 h0
  | pyWaited x0 x1 => exact stepRetO_pyWaited w a fs v x0 x1 h0
  | pyNativeWaited x0 => exact stepRetO_pyNativeWaited w a fs v x0 h0
  | pyUntilEnd  => exact stepRetO_pyUntilEnd w a fs v  h0
  | pyWithEnd  => exact stepRetO_pyWithEnd w a fs v  h0
  | pyAwaited x0 => exact stepRetO_pyAwaited w a fs v x0 h0
  | pyCheckLoop x0 x1 x2 => exact stepRetO_pyCheckLoop w a fs v x0 x1 x2 h0
  | pyCode x0 => exact stepRetO_pyCode w a fs v x0 h0
  | raiseStop  => exact stepRetO_raiseStop w a fs v  h0
  | transferDone x0 => exact stepRetO_transferDone w a fs v x0 h0
  | borrowMark x0 => exact stepRetO_borrowMark w a fs v x0 h0
  | nestedRun  => exact stepRetO_nestedRun w a fs v  h0
  | taskDelay x0 x1 => exact stepRetO_taskDelay w a fs v x0 x1 h0
  | scopeClose x0 x1 x2 x3 x4 x5 => exact stepRetO_scopeClose w a fs v x0 x1 x2 x3 x4 x5 h0
  | asyncTrigger x0 => exact stepRetO_asyncTrigger w a fs v x0 h0
  | coroutineEnd  => exact stepRetO_coroutineEnd w a fs v  h0

theorem stepRaise_oext {o0 : OV} (a : ActId) (f : Frame Rat) (fs : List (Frame Rat)) (e : ExnId) (h0 : OX(o0, w)) :
    OX(o0, (w.stepRaise a f fs e)) := by
  cases f with
  | connHib c subs => exact stepRaiseO_connHib w a fs e c subs h0
  | seq x0 => exact stepRaiseO_seq w a fs e x0 h0
  | wakeHib x0 => exact stepRaiseO_wakeHib w a fs e x0 h0
  | notifHib x0 x1 => exact stepRaiseO_notifHib w a fs e x0 x1 h0
  | foreverHib  => exact stepRaiseO_foreverHib w a fs e  h0
  | awaitMark x0 => exact stepRaiseO_awaitMark w a fs e x0 h0
  | sleepMark  => exact stepRaiseO_sleepMark w a fs e  h0
  | tickEnd  => exact stepRaiseO_tickEnd w a fs e  h0
  | condLoop x0 => exact stepRaiseO_condLoop w a fs e x0 h0
  | connStart x0 => exact stepRaiseO_connStart w a fs e x0 h0
  | retVal x0 => exact stepRaiseO_retVal w a fs e x0 h0
  | retTrue  => exact stepRaiseO_retTrue w a fs e  h0
  | taskResult x0 x1 => exact stepRaiseO_taskResult w a fs e x0 x1 h0
  | taskStart x0 x1 x2 x3 => exact stepRaiseO_taskStart w a fs e x0 x1 x2 x3 h0
  | taskPayload x0 => exact stepRaiseO_taskPayload w a fs e x0 h0
  | scopeBody x0 => exact stepRaiseO_scopeBody w a fs e x0 h0
  | scopeExitSet x0 => exact stepRaiseO_scopeExitSet w a fs e x0 h0
  | scopeExitWait x0 x1 => exact stepRaiseO_scopeExitWait w a fs e x0 x1 h0
  | tryBlock x0 => exact stepRaiseO_tryBlock w a fs e x0 h0
  | finallyBlock x0 => exact stepRaiseO_finallyBlock w a fs e x0 h0
  | reraise x0 => exact stepRaiseO_reraise w a fs e x0 h0
  | closeResume  => exact stepRaiseO_closeResume w a fs e  h0
  | lockWait x0 x1 => exact stepRaiseO_lockWait w a fs e x0 x1 h0
  | lockBody x0 x1 => exact stepRaiseO_lockBody w a fs e x0 x1 h0
  | qGetPop x0 => exact stepRaiseO_qGetPop w a fs e x0 h0
  | gotValue  => exact stepRaiseO_gotValue w a fs e  h0
  | cGotValue x0 x1 => exact stepRaiseO_cGotValue w a fs e x0 x1 h0
  | qIterNext x0 x1 x2 => exact stepRaiseO_qIterNext w a fs e x0 x1 x2 h0
  | qIterGot x0 x1 x2 => exact stepRaiseO_qIterGot w a fs e x0 x1 x2 h0
  | cGetWait x0 x1 => exact stepRaiseO_cGetWait w a fs e x0 x1 h0
  | cIterLoop x0 x1 x2 x3 => exact stepRaiseO_cIterLoop w a fs e x0 x1 x2 x3 h0
  | cIterWait x0 x1 x2 x3 => exact stepRaiseO_cIterWait w a fs e x0 x1 x2 x3 h0
  | cIterNext x0 x1 x2 => exact stepRaiseO_cIterNext w a fs e x0 x1 x2 h0
  | borrowWait x0 x1 x2 => exact stepRaiseO_borrowWait w a fs e x0 x1 x2 h0
  | borrowRemoved x0 x1 x2 => exact stepRaiseO_borrowRemoved w a fs e x0 x1 x2 h0
  | borrowInserted x0 x1 x2 => exact stepRaiseO_borrowInserted w a fs e x0 x1 x2 h0
  | borrowBody x0 x1 => exact stepRaiseO_borrowBody w a fs e x0 x1 h0
  | borrowExit1 x0 x1 x2 => exact stepRaiseO_borrowExit1 w a fs e x0 x1 x2 h0
  | borrowExit2 x0 => exact stepRaiseO_borrowExit2 w a fs e x0 h0
  | resAdjust x0 x1 x2 => exact stepRaiseO_resAdjust w a fs e x0 x1 x2 h0
  | pipeWindow x0 x1 x2 x3 x4 x5 x6 x7 => exact stepRaiseO_pipeWindow w a fs e x0 x1 x2 x3 x4 x5 x6 x7 h0
  | tickWait x0 x1 x2 x3 x4 => exact stepRaiseO_tickWait w a fs e x0 x1 x2 x3 x4 h0
  | tickBody x0 x1 x2 x3 x4 => exact stepRaiseO_tickBody w a fs e x0 x1 x2 x3 x4 h0
  | collectAwait x0 x1 => exact stepRaiseO_collectAwait w a fs e x0 x1 h0
  | firstMonitor x0 => exact stepRaiseO_firstMonitor w a fs e x0 h0
  | firstNext x0 x1 x2 x3 => exact stepRaiseO_firstNext w a fs e x0 x1 x2 x3 h0
  | firstGot x0 x1 x2 x3 => exact stepRaiseO_firstGot w a fs e x0 x1 x2 x3 h0
  | firstYield x0 x1 x2 x3 => exact stepRaiseO_firstYield w a fs e x0 x1 x2 x3 h0
  | firstEnd x0 x1 => exact stepRaiseO_firstEnd w a fs e x0 x1 h0
  | pyGen x0 => exact stepRaiseO_pyGen w a fs e x0 h0
  | pyPayloadStart x0 => exact stepRaiseO_pyPayloadStart w a fs e x0 h0
  | pyPayloadLoop x0 => exact stepRaiseO_pyPayloadLoop w a fs e x0 h0
  | pyWaited x0 x1 => exact stepRaiseO_pyWaited w a fs e x0 x1 h0
  | pyNativeWaited x0 => exact stepRaiseO_pyNativeWaited w a fs e x0 h0
  | pyUntilEnd  => exact stepRaiseO_pyUntilEnd w a fs e  h0
  | pyWithEnd  => exact stepRaiseO_pyWithEnd w a fs e  h0
  | pyAwaited x0 => exact stepRaiseO_pyAwaited w a fs e x0 h0
  | pyCheckLoop x0 x1 x2 => exact stepRaiseO_pyCheckLoop w a fs e x0 x1 x2 h0
  | pyCode x0 => exact stepRaiseO_pyCode w a fs e x0 h0
  | raiseStop  => exact stepRaiseO_raiseStop w a fs e  h0
  | transferDone x0 => exact stepRaiseO_transferDone w a fs e x0 h0
  | borrowMark x0 => exact stepRaiseO_borrowMark w a fs e x0 h0
  | nestedRun  => exact stepRaiseO_nestedRun w a fs e  h0
  | taskDelay x0 x1 => exact stepRaiseO_taskDelay w a fs e x0 x1 h0
  | scopeClose x0 x1 x2 x3 x4 x5 => exact stepRaiseO_scopeClose w a fs e x0 x1 x2 x3 x4 x5 h0
  | asyncTrigger x0 => exact stepRaiseO_asyncTrigger w a fs e x0 h0
  | coroutineEnd  => exact stepRaiseO_coroutineEnd w a fs e  h0

end World
end USim.Machine
