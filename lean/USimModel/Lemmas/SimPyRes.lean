import USimModel.SimPyRes
/-! Helper lemmas for C19 (generic facts about `serve`, `serveAll`, queues and the op machine). -/
namespace USim.SimPyRes

theorem mem_insertBy {α} (le : α → α → Bool) (x y : α) (l : List α) :
    y ∈ insertBy le x l ↔ y = x ∨ y ∈ l := by
  induction l with
  | nil => simp [insertBy]
  | cons a as ih =>
    simp only [insertBy]
    split
    · simp [ih]; constructor
      · rintro (h | h | h) <;> simp [h]
      · rintro (h | h | h) <;> simp [h]
    · simp

theorem mem_removeFirst {α} (p : α → Bool) (y : α) (l : List α) : y ∈ removeFirst p l → y ∈ l := by
  induction l with
  | nil => simp [removeFirst]
  | cons a as ih =>
    simp only [removeFirst]
    split
    · intro h; exact List.mem_cons_of_mem _ h
    · intro h
      rcases List.mem_cons.mp h with h | h
      · simp [h]
      · exact List.mem_cons_of_mem _ (ih h)

theorem length_insertBy {α} (le : α → α → Bool) (x : α) (l : List α) :
    (insertBy le x l).length = l.length + 1 := by
  induction l with
  | nil => rfl
  | cons a as ih => simp only [insertBy]; split <;> simp [ih]

theorem length_removeFirst_le {α} (p : α → Bool) (l : List α) : (removeFirst p l).length ≤ l.length := by
  induction l with
  | nil => simp [removeFirst]
  | cons a as ih => simp only [removeFirst]; split <;> simp <;> omega

theorem mem_removeFirst_of_not {α} (p : α → Bool) (x : α) (l : List α) (hx : x ∈ l) (hp : p x = false) :
    x ∈ removeFirst p l := by
  induction l with
  | nil => simp at hx
  | cons y ys ih =>
    simp only [removeFirst]
    split
    · rename_i hy
      rcases List.mem_cons.mp hx with h | h
      · subst h; rw [hp] at hy; exact absurd hy (by simp)
      · exact h
    · rcases List.mem_cons.mp hx with h | h
      · simp [h]
      · exact List.mem_cons_of_mem _ (ih h)

theorem length_le_removeFirst_succ {α} (p : α → Bool) (l : List α) :
    l.length ≤ (removeFirst p l).length + 1 := by
  induction l with
  | nil => simp [removeFirst]
  | cons a as ih => simp only [removeFirst]; split <;> simp <;> omega

section serve
variable {α : Type} (f : Core → α → Option Core)

theorem serve_rest_sub : ∀ (q : List α) (s : Core), ∀ a ∈ (serve f s q).2, a ∈ q := by
  intro q
  induction q with
  | nil => intro s a h; simp [serve] at h
  | cons x xs ih =>
    intro s a h
    simp only [serve] at h
    split at h
    · exact List.mem_cons_of_mem _ (ih _ a h)
    · exact h

theorem serveAll_rest_sub : ∀ (q : List α) (s : Core), ∀ a ∈ (serveAll f s q).2, a ∈ q := by
  intro q
  induction q with
  | nil => intro s a h; simp [serveAll] at h
  | cons x xs ih =>
    intro s a h
    simp only [serveAll] at h
    split at h
    · exact List.mem_cons_of_mem _ (ih _ a h)
    · rcases List.mem_cons.mp h with h | h
      · simp [h]
      · exact List.mem_cons_of_mem _ (ih _ a h)

/-- an invariant kept by every successful grant is kept by `serve` -/
theorem serve_inv (P : Core → Prop) (W : α → Prop)
    (hf : ∀ s a s', P s → W a → f s a = some s' → P s') :
    ∀ (q : List α) (s : Core), P s → (∀ a ∈ q, W a) → P (serve f s q).1 := by
  intro q
  induction q with
  | nil => intro s h _; simpa [serve]
  | cons x xs ih =>
    intro s h hw
    simp only [serve]
    split
    · rename_i s' hs'
      exact ih s' (hf s x s' h (hw x (by simp)) hs') (fun a ha => hw a (List.mem_cons_of_mem _ ha))
    · exact h

theorem serveAll_inv (P : Core → Prop) (W : α → Prop)
    (hf : ∀ s a s', P s → W a → f s a = some s' → P s') :
    ∀ (q : List α) (s : Core), P s → (∀ a ∈ q, W a) → P (serveAll f s q).1 := by
  intro q
  induction q with
  | nil => intro s h _; simpa [serveAll]
  | cons x xs ih =>
    intro s h hw
    simp only [serveAll]
    split
    · rename_i s' hs'
      exact ih s' (hf s x s' h (hw x (by simp)) hs') (fun a ha => hw a (List.mem_cons_of_mem _ ha))
    · exact ih s h (fun a ha => hw a (List.mem_cons_of_mem _ ha))

/-- `takewhile` stops exactly at a request that cannot be granted in the final state -/
theorem serve_blocked : ∀ (q : List α) (s : Core) (a : α) (r : List α),
    (serve f s q).2 = a :: r → f (serve f s q).1 a = none := by
  intro q
  induction q with
  | nil => intro s a r h; simp [serve] at h
  | cons x xs ih =>
    intro s a r h
    cases hx : f s x with
    | some s' =>
      simp only [serve, hx] at h ⊢
      exact ih s' a r h
    | none =>
      simp only [serve, hx] at h ⊢
      simp only [List.cons.injEq] at h
      rw [← h.1]; exact hx

/-- the granted requests are a prefix of the queue: requests are served in queue order -/
theorem serve_prefix : ∀ (q : List α) (s : Core), ∃ g, q = g ++ (serve f s q).2 := by
  intro q
  induction q with
  | nil => intro s; exact ⟨[], by simp [serve]⟩
  | cons x xs ih =>
    intro s
    simp only [serve]
    split
    · obtain ⟨g, hg⟩ := ih ‹_›
      exact ⟨x :: g, by simp [← hg]⟩
    · exact ⟨[], by simp⟩

end serve

/-- well-formedness of the operations of a history: every new request satisfies `WP`/`WG` -/
def OpsWF (WP : PutReq → Prop) (WG : GetReq → Prop) : List Op → Prop
  | [] => True
  | .newPut r :: ops => WP r ∧ OpsWF WP WG ops
  | .newGet g :: ops => WG g ∧ OpsWF WP WG ops
  | _ :: ops => OpsWF WP WG ops

def StateInv (P : Core → Prop) (WP : PutReq → Prop) (WG : GetReq → Prop) (s : RState) : Prop :=
  P s.core ∧ (∀ r ∈ s.putQ, WP r) ∧ (∀ g ∈ s.getQ, WG g)

section lift
variable (P : Core → Prop) (WP : PutReq → Prop) (WG : GetReq → Prop)
variable (hput : ∀ s r s', P s → WP r → doPut s r = some s' → P s')
variable (hget : ∀ s g s', P s → WG g → doGet s g = some s' → P s')
variable (hpend : ∀ (s : Core) p, P s → P { s with pending := p })
variable (hnow : ∀ (s : Core) t, P s → P { s with now := t })

include hput in
theorem triggerPut_inv (s : RState) (h : StateInv P WP WG s) : StateInv P WP WG (triggerPut s) := by
  obtain ⟨hp, hq, hg⟩ := h
  refine ⟨serve_inv doPut P WP hput _ _ hp hq, ?_, hg⟩
  intro r hr
  exact hq r (serve_rest_sub doPut _ _ r hr)

include hget in
theorem triggerGet_inv (s : RState) (h : StateInv P WP WG s) : StateInv P WP WG (triggerGet s) := by
  obtain ⟨hp, hq, hg⟩ := h
  unfold triggerGet serveGets
  split
  · refine ⟨serveAll_inv doGet P WG hget _ _ hp hg, hq, ?_⟩
    intro g hg'
    exact hg g (serveAll_rest_sub doGet _ _ g hg')
  · refine ⟨serve_inv doGet P WG hget _ _ hp hg, hq, ?_⟩
    intro g hg'
    exact hg g (serve_rest_sub doGet _ _ g hg')

include hput hget hpend hnow in
theorem step_inv (s : RState) (op : Op) (h : StateInv P WP WG s)
    (hop : match op with | .newPut r => WP r | .newGet g => WG g | _ => True) :
    StateInv P WP WG (step s op) := by
  cases op with
  | newPut r =>
    apply triggerPut_inv P WP WG hput
    obtain ⟨hp, hq, hg⟩ := h
    refine ⟨hp, ?_, hg⟩
    intro x hx
    simp only [enqueuePut] at hx
    split at hx
    · rcases (mem_insertBy _ _ _ _).mp hx with h | h
      · exact h ▸ hop
      · exact hq x h
    · rcases List.mem_append.mp hx with h | h
      · exact hq x h
      · simp at h; exact h ▸ hop
  | newGet g =>
    apply triggerGet_inv P WP WG hget
    obtain ⟨hp, hq, hg⟩ := h
    refine ⟨hp, hq, ?_⟩
    intro x hx
    rcases List.mem_append.mp hx with h | h
    · exact hg x h
    · simp at h; exact h ▸ hop
  | runCallback =>
    simp only [step, runCallback]
    split
    · exact h
    · apply triggerGet_inv P WP WG hget
      exact ⟨hpend _ _ h.1, h.2.1, h.2.2⟩
    · apply triggerPut_inv P WP WG hput
      exact ⟨hpend _ _ h.1, h.2.1, h.2.2⟩
  | cancelPut id =>
    exact ⟨h.1, fun r hr => h.2.1 r (mem_removeFirst _ _ _ hr), h.2.2⟩
  | cancelGet id =>
    exact ⟨h.1, h.2.1, fun r hr => h.2.2 r (mem_removeFirst _ _ _ hr)⟩
  | tick t => exact ⟨hnow _ _ h.1, h.2.1, h.2.2⟩

include hput hget hpend hnow in
/-- **invariant lifting**: a core predicate kept by every grant holds after every history -/
theorem run_inv : ∀ (ops : List Op) (s : RState), StateInv P WP WG s → OpsWF WP WG ops →
    StateInv P WP WG (run s ops) := by
  intro ops
  induction ops with
  | nil => intro s h _; exact h
  | cons op ops ih =>
    intro s h hw
    simp only [run, List.foldl_cons]
    apply ih
    · apply step_inv P WP WG hput hget hpend hnow s op h
      cases op <;> simp_all [OpsWF]
    · cases op <;> simp_all [OpsWF]

end lift
end USim.SimPyRes
