import USimModel.Lemmas.KStepFrames
/-!
# One transition of the running activity, seen from the kernel

Every statement (`execStmt`), every frame that gets a value (`stepRet`) or an exception (`stepRaise`) extends
the kernel view (`KExt`) - except the statement that starts a nested `run()`, which pushes the current kernel
onto `saved` and starts a fresh one (`NestedEntry`).
-/
set_option linter.unusedVariables false
set_option linter.unusedSimpArgs false
namespace USim.Machine
open TimeLike USim.Prim.Kernel
namespace World
variable (w : World Rat)

/-! ### statements -/

theorem execStmt_scope_kext {k0 : KV} (a : ActId) (fs : List (Frame Rat)) (name : Name) (untilN : Option (NExpr Rat))
    (body : List (Stmt Rat)) (h0 : KExt k0 w.kv) : KExt k0 (w.execStmt a fs (.scope name untilN body)).kv := by
  simp only [execStmt]
  split
  · kx h0
  · rename_i w1 notif hb
    have h1 : w1.kv = w.kv := by
      split at hb
      · cases hb; rfl
      · simp only [Option.map_eq_some_iff, Prod.exists, Prod.mk.injEq] at hb
        obtain ⟨w2, c2, hb, rfl, _⟩ := hb
        exact kv_buildCond hb
      · split at hb <;> (cases hb; rfl)
    have h0' : KExt k0 w1.kv := by rw [h1]; exact h0
    clear hb
    cases notif <;> kx h0'

set_option maxHeartbeats 1600000 in
theorem execStmt_kext {k0 : KV} (a : ActId) (fs : List (Frame Rat)) (s : Stmt Rat)
    (hs : ∀ progs start, s ≠ .nestedRun progs start) (h0 : KExt k0 w.kv) : KExt k0 (w.execStmt a fs s).kv := by
  cases s
  case scope name untilN body => exact execStmt_scope_kext w a fs name untilN body h0
  case nestedRun progs start => exact (hs _ _ rfl).elim
  all_goals (simp only [execStmt]; kx h0)

/-! ### frames that need an induction -/

theorem stepRet_sub_kext {k0 : KV} (a : ActId) (l : List CondId) : ∀ (w : World Rat) (acc : List (CondId × SigId)) w' subs,
    World.stepRet.sub a w acc l = some (w', subs) → KExt k0 w.kv → KExt k0 w'.kv := by
  induction l with
  | nil => intro w acc w' subs h h0; simp only [stepRet.sub, Option.some.injEq, Prod.mk.injEq] at h; obtain ⟨rfl, _⟩ := h; exact h0
  | cons ch rest ih =>
    intro w acc w' subs h h0
    simp only [stepRet.sub] at h
    split at h
    · exact ih _ _ _ _ h h0
    · split at h
      · rename_i w1 hs
        exact ih _ _ _ _ h (subscribe_kext hs (by kx h0))
      · cases h

theorem stepRet_connStart {k0 : KV} (a : ActId) (fs : List (Frame Rat)) (v : Val) (c : CondId) (h0 : KExt k0 w.kv) :
    KExt k0 (w.stepRet a (.connStart c) fs v).kv := by
  simp only [stepRet]
  split
  · kx h0
  · split
    · rename_i w1 subs hs
      have := stepRet_sub_kext a _ _ _ _ _ hs h0
      kx this
    · kx h0

theorem kv_foldl_pair {α β} (f : World Rat × β → α → World Rat × β) (h : ∀ p x, (f p x).1.kv = p.1.kv) (l : List α)
    (p : World Rat × β) : (l.foldl f p).1.kv = p.1.kv := by
  induction l generalizing p with
  | nil => rfl
  | cons x xs ih => simp only [List.foldl_cons, ih, h]

theorem stepRaise_connHib {k0 : KV} (a : ActId) (fs : List (Frame Rat)) (e : ExnId) (c : CondId) (subs : List (CondId × SigId))
    (h0 : KExt k0 w.kv) : KExt k0 (w.stepRaise a (.connHib c subs) fs e).kv := by
  simp only [stepRaise]
  have hk : ∀ (l : List (CondId × SigId)) (p : World Rat × Bool),
      (l.foldl (fun (p : World Rat × Bool) (q : CondId × SigId) =>
        let (w, sw) := p
        let sw := sw || (w.sig q.2).exn == e
        ((w.unsubscribe q.1 a q.2).1, sw)) p).1.kv = p.1.kv :=
    fun l p => kv_foldl_pair _ (by intro p x; exact kv_unsubscribe _ _ _ _) l p
  have h1 := hk subs.reverse (w, false)
  have h0' : KExt k0 (subs.reverse.foldl (fun (p : World Rat × Bool) (q : CondId × SigId) =>
        let (w, sw) := p
        let sw := sw || (w.sig q.2).exn == e
        ((w.unsubscribe q.1 a q.2).1, sw)) (w, false)).1.kv := by rw [h1]; exact h0
  split <;> kx h0'

/-! ### the two case analyses -/

theorem stepRet_kext {k0 : KV} (a : ActId) (f : Frame Rat) (fs : List (Frame Rat)) (v : Val)
    (hf : ∀ progs start ss, f ≠ .seq (.nestedRun progs start :: ss)) (h0 : KExt k0 w.kv) : KExt k0 (w.stepRet a f fs v).kv := by
  cases f with
  | seq l =>
    cases l with
    | nil => simp only [stepRet]; kx h0
    | cons s ss =>
      simp only [stepRet]
      exact execStmt_kext w a _ s (fun p st h => hf p st ss (by rw [h])) h0
  | connStart c => exact stepRet_connStart w a fs v c h0
  | wakeHib x0 => exact stepRet_wakeHib w a fs v x0 h0
  | notifHib x0 x1 => exact stepRet_notifHib w a fs v x0 x1 h0
  | foreverHib  => exact stepRet_foreverHib w a fs v  h0
  | awaitMark x0 => exact stepRet_awaitMark w a fs v x0 h0
  | sleepMark  => exact stepRet_sleepMark w a fs v  h0
  | tickEnd  => exact stepRet_tickEnd w a fs v  h0
  | condLoop x0 => exact stepRet_condLoop w a fs v x0 h0
  | connHib x0 x1 => exact stepRet_connHib w a fs v x0 x1 h0
  | retVal x0 => exact stepRet_retVal w a fs v x0 h0
  | retTrue  => exact stepRet_retTrue w a fs v  h0
  | taskResult x0 x1 => exact stepRet_taskResult w a fs v x0 x1 h0
  | taskStart x0 x1 x2 x3 => exact stepRet_taskStart w a fs v x0 x1 x2 x3 h0
  | taskPayload x0 => exact stepRet_taskPayload w a fs v x0 h0
  | scopeBody x0 => exact stepRet_scopeBody w a fs v x0 h0
  | scopeExitSet x0 => exact stepRet_scopeExitSet w a fs v x0 h0
  | scopeExitWait x0 x1 => exact stepRet_scopeExitWait w a fs v x0 x1 h0
  | tryBlock x0 => exact stepRet_tryBlock w a fs v x0 h0
  | finallyBlock x0 => exact stepRet_finallyBlock w a fs v x0 h0
  | reraise x0 => exact stepRet_reraise w a fs v x0 h0
  | closeResume  => exact stepRet_closeResume w a fs v  h0
  | lockWait x0 x1 => exact stepRet_lockWait w a fs v x0 x1 h0
  | lockBody x0 x1 => exact stepRet_lockBody w a fs v x0 x1 h0
  | qGetPop x0 => exact stepRet_qGetPop w a fs v x0 h0
  | gotValue  => exact stepRet_gotValue w a fs v  h0
  | cGotValue x0 x1 => exact stepRet_cGotValue w a fs v x0 x1 h0
  | qIterNext x0 x1 x2 => exact stepRet_qIterNext w a fs v x0 x1 x2 h0
  | qIterGot x0 x1 x2 => exact stepRet_qIterGot w a fs v x0 x1 x2 h0
  | cGetWait x0 x1 => exact stepRet_cGetWait w a fs v x0 x1 h0
  | cIterLoop x0 x1 x2 x3 => exact stepRet_cIterLoop w a fs v x0 x1 x2 x3 h0
  | cIterWait x0 x1 x2 x3 => exact stepRet_cIterWait w a fs v x0 x1 x2 x3 h0
  | cIterNext x0 x1 x2 => exact stepRet_cIterNext w a fs v x0 x1 x2 h0
  | borrowWait x0 x1 x2 => exact stepRet_borrowWait w a fs v x0 x1 x2 h0
  | borrowRemoved x0 x1 x2 => exact stepRet_borrowRemoved w a fs v x0 x1 x2 h0
  | borrowInserted x0 x1 x2 => exact stepRet_borrowInserted w a fs v x0 x1 x2 h0
  | borrowBody x0 x1 => exact stepRet_borrowBody w a fs v x0 x1 h0
  | borrowExit1 x0 x1 x2 => exact stepRet_borrowExit1 w a fs v x0 x1 x2 h0
  | borrowExit2 x0 => exact stepRet_borrowExit2 w a fs v x0 h0
  | resAdjust x0 x1 x2 => exact stepRet_resAdjust w a fs v x0 x1 x2 h0
  | pipeWindow x0 x1 x2 x3 x4 x5 x6 x7 => exact stepRet_pipeWindow w a fs v x0 x1 x2 x3 x4 x5 x6 x7 h0
  | tickWait x0 x1 x2 x3 x4 => exact stepRet_tickWait w a fs v x0 x1 x2 x3 x4 h0
  | tickBody x0 x1 x2 x3 x4 => exact stepRet_tickBody w a fs v x0 x1 x2 x3 x4 h0
  | collectAwait x0 x1 => exact stepRet_collectAwait w a fs v x0 x1 h0
  | firstMonitor x0 => exact stepRet_firstMonitor w a fs v x0 h0
  | firstNext x0 x1 x2 x3 => exact stepRet_firstNext w a fs v x0 x1 x2 x3 h0
  | firstGot x0 x1 x2 x3 => exact stepRet_firstGot w a fs v x0 x1 x2 x3 h0
  | firstYield x0 x1 x2 x3 => exact stepRet_firstYield w a fs v x0 x1 x2 x3 h0
  | firstEnd x0 x1 => exact stepRet_firstEnd w a fs v x0 x1 h0
  | pyGen x0 => exact stepRet_pyGen w a fs v x0 h0
  | pyPayloadStart x0 => exact stepRet_pyPayloadStart w a fs v x0 h0
  | pyPayloadLoop x0 => exact stepRet_pyPayloadLoop w a fs v x0 h0
  | pyWaited x0 x1 => exact stepRet_pyWaited w a fs v x0 x1 h0
  | pyNativeWaited x0 => exact stepRet_pyNativeWaited w a fs v x0 h0
  | pyUntilEnd  => exact stepRet_pyUntilEnd w a fs v  h0
  | pyWithEnd  => exact stepRet_pyWithEnd w a fs v  h0
  | pyAwaited x0 => exact stepRet_pyAwaited w a fs v x0 h0
  | pyCheckLoop x0 x1 x2 => exact stepRet_pyCheckLoop w a fs v x0 x1 x2 h0
  | pyCode x0 => exact stepRet_pyCode w a fs v x0 h0
  | raiseStop  => exact stepRet_raiseStop w a fs v  h0
  | transferDone x0 => exact stepRet_transferDone w a fs v x0 h0
  | borrowMark x0 => exact stepRet_borrowMark w a fs v x0 h0
  | nestedRun  => exact stepRet_nestedRun w a fs v  h0
  | taskDelay x0 x1 => exact stepRet_taskDelay w a fs v x0 x1 h0
  | scopeClose x0 x1 x2 x3 x4 x5 => exact stepRet_scopeClose w a fs v x0 x1 x2 x3 x4 x5 h0
  | asyncTrigger x0 => exact stepRet_asyncTrigger w a fs v x0 h0
  | coroutineEnd  => exact stepRet_coroutineEnd w a fs v  h0

theorem stepRaise_kext {k0 : KV} (a : ActId) (f : Frame Rat) (fs : List (Frame Rat)) (e : ExnId) (h0 : KExt k0 w.kv) :
    KExt k0 (w.stepRaise a f fs e).kv := by
  cases f with
  | connHib c subs => exact stepRaise_connHib w a fs e c subs h0
  | seq x0 => exact stepRaise_seq w a fs e x0 h0
  | wakeHib x0 => exact stepRaise_wakeHib w a fs e x0 h0
  | notifHib x0 x1 => exact stepRaise_notifHib w a fs e x0 x1 h0
  | foreverHib  => exact stepRaise_foreverHib w a fs e  h0
  | awaitMark x0 => exact stepRaise_awaitMark w a fs e x0 h0
  | sleepMark  => exact stepRaise_sleepMark w a fs e  h0
  | tickEnd  => exact stepRaise_tickEnd w a fs e  h0
  | condLoop x0 => exact stepRaise_condLoop w a fs e x0 h0
  | connStart x0 => exact stepRaise_connStart w a fs e x0 h0
  | retVal x0 => exact stepRaise_retVal w a fs e x0 h0
  | retTrue  => exact stepRaise_retTrue w a fs e  h0
  | taskResult x0 x1 => exact stepRaise_taskResult w a fs e x0 x1 h0
  | taskStart x0 x1 x2 x3 => exact stepRaise_taskStart w a fs e x0 x1 x2 x3 h0
  | taskPayload x0 => exact stepRaise_taskPayload w a fs e x0 h0
  | scopeBody x0 => exact stepRaise_scopeBody w a fs e x0 h0
  | scopeExitSet x0 => exact stepRaise_scopeExitSet w a fs e x0 h0
  | scopeExitWait x0 x1 => exact stepRaise_scopeExitWait w a fs e x0 x1 h0
  | tryBlock x0 => exact stepRaise_tryBlock w a fs e x0 h0
  | finallyBlock x0 => exact stepRaise_finallyBlock w a fs e x0 h0
  | reraise x0 => exact stepRaise_reraise w a fs e x0 h0
  | closeResume  => exact stepRaise_closeResume w a fs e  h0
  | lockWait x0 x1 => exact stepRaise_lockWait w a fs e x0 x1 h0
  | lockBody x0 x1 => exact stepRaise_lockBody w a fs e x0 x1 h0
  | qGetPop x0 => exact stepRaise_qGetPop w a fs e x0 h0
  | gotValue  => exact stepRaise_gotValue w a fs e  h0
  | cGotValue x0 x1 => exact stepRaise_cGotValue w a fs e x0 x1 h0
  | qIterNext x0 x1 x2 => exact stepRaise_qIterNext w a fs e x0 x1 x2 h0
  | qIterGot x0 x1 x2 => exact stepRaise_qIterGot w a fs e x0 x1 x2 h0
  | cGetWait x0 x1 => exact stepRaise_cGetWait w a fs e x0 x1 h0
  | cIterLoop x0 x1 x2 x3 => exact stepRaise_cIterLoop w a fs e x0 x1 x2 x3 h0
  | cIterWait x0 x1 x2 x3 => exact stepRaise_cIterWait w a fs e x0 x1 x2 x3 h0
  | cIterNext x0 x1 x2 => exact stepRaise_cIterNext w a fs e x0 x1 x2 h0
  | borrowWait x0 x1 x2 => exact stepRaise_borrowWait w a fs e x0 x1 x2 h0
  | borrowRemoved x0 x1 x2 => exact stepRaise_borrowRemoved w a fs e x0 x1 x2 h0
  | borrowInserted x0 x1 x2 => exact stepRaise_borrowInserted w a fs e x0 x1 x2 h0
  | borrowBody x0 x1 => exact stepRaise_borrowBody w a fs e x0 x1 h0
  | borrowExit1 x0 x1 x2 => exact stepRaise_borrowExit1 w a fs e x0 x1 x2 h0
  | borrowExit2 x0 => exact stepRaise_borrowExit2 w a fs e x0 h0
  | resAdjust x0 x1 x2 => exact stepRaise_resAdjust w a fs e x0 x1 x2 h0
  | pipeWindow x0 x1 x2 x3 x4 x5 x6 x7 => exact stepRaise_pipeWindow w a fs e x0 x1 x2 x3 x4 x5 x6 x7 h0
  | tickWait x0 x1 x2 x3 x4 => exact stepRaise_tickWait w a fs e x0 x1 x2 x3 x4 h0
  | tickBody x0 x1 x2 x3 x4 => exact stepRaise_tickBody w a fs e x0 x1 x2 x3 x4 h0
  | collectAwait x0 x1 => exact stepRaise_collectAwait w a fs e x0 x1 h0
  | firstMonitor x0 => exact stepRaise_firstMonitor w a fs e x0 h0
  | firstNext x0 x1 x2 x3 => exact stepRaise_firstNext w a fs e x0 x1 x2 x3 h0
  | firstGot x0 x1 x2 x3 => exact stepRaise_firstGot w a fs e x0 x1 x2 x3 h0
  | firstYield x0 x1 x2 x3 => exact stepRaise_firstYield w a fs e x0 x1 x2 x3 h0
  | firstEnd x0 x1 => exact stepRaise_firstEnd w a fs e x0 x1 h0
  | pyGen x0 => exact stepRaise_pyGen w a fs e x0 h0
  | pyPayloadStart x0 => exact stepRaise_pyPayloadStart w a fs e x0 h0
  | pyPayloadLoop x0 => exact stepRaise_pyPayloadLoop w a fs e x0 h0
  | pyWaited x0 x1 => exact stepRaise_pyWaited w a fs e x0 x1 h0
  | pyNativeWaited x0 => exact stepRaise_pyNativeWaited w a fs e x0 h0
  | pyUntilEnd  => exact stepRaise_pyUntilEnd w a fs e  h0
  | pyWithEnd  => exact stepRaise_pyWithEnd w a fs e  h0
  | pyAwaited x0 => exact stepRaise_pyAwaited w a fs e x0 h0
  | pyCheckLoop x0 x1 x2 => exact stepRaise_pyCheckLoop w a fs e x0 x1 x2 h0
  | pyCode x0 => exact stepRaise_pyCode w a fs e x0 h0
  | raiseStop  => exact stepRaise_raiseStop w a fs e  h0
  | transferDone x0 => exact stepRaise_transferDone w a fs e x0 h0
  | borrowMark x0 => exact stepRaise_borrowMark w a fs e x0 h0
  | nestedRun  => exact stepRaise_nestedRun w a fs e  h0
  | taskDelay x0 x1 => exact stepRaise_taskDelay w a fs e x0 x1 h0
  | scopeClose x0 x1 x2 x3 x4 x5 => exact stepRaise_scopeClose w a fs e x0 x1 x2 x3 x4 x5 h0
  | asyncTrigger x0 => exact stepRaise_asyncTrigger w a fs e x0 h0
  | coroutineEnd  => exact stepRaise_coroutineEnd w a fs e  h0

end World
end USim.Machine
