import USimModel.Lemmas.QStepFrames
/-!
# One transition of the running activity only adds tasks and activities and never takes a task back

Same structure as `KStep.lean` / `PStep.lean` / `SStep.lean`, for the tables of tasks and activities (`QExt`).
-/
set_option linter.unusedVariables false
set_option linter.unusedSimpArgs false
namespace USim.Machine
open TimeLike USim.Prim.Kernel
namespace World
variable (w : World Rat)

theorem execStmt_scope_qext {t0 : Array Task} {a0 : Array (Activity Rat)} (a : ActId) (fs : List (Frame Rat)) (name : Name) (untilN : Option (NExpr Rat))
    (body : List (Stmt Rat)) (h0 : QExt t0 a0 w.tasks w.acts) : QExt t0 a0 (w.execStmt a fs (.scope name untilN body)).tasks (w.execStmt a fs (.scope name untilN body)).acts := by
  simp only [execStmt]
  split
  · qx h0
  · rename_i w1 notif hb
    have h1 : w1.tasks = w.tasks ∧ w1.acts = w.acts := by
      split at hb
      · cases hb; exact ⟨rfl, rfl⟩
      · simp only [Option.map_eq_some_iff, Prod.exists, Prod.mk.injEq] at hb
        obtain ⟨w2, c2, hb, rfl, _⟩ := hb
        exact qv_buildCond hb
      · split at hb <;> (cases hb; exact ⟨rfl, rfl⟩)
    have h0' : QExt t0 a0 w1.tasks w1.acts := by rw [h1.1, h1.2]; exact h0
    clear hb
    cases notif <;> qx h0'

theorem execStmt_callbacks_qext {t0 : Array Task} {a0 : Array (Activity Rat)} (a : ActId) (fs : List (Frame Rat)) (e : Nat) (h0 : QExt t0 a0 w.tasks w.acts) :
    QExt t0 a0 (w.execStmt a fs (.pyInvokeCallbacks e)).tasks (w.execStmt a fs (.pyInvokeCallbacks e)).acts := by
  simp only [execStmt]
  split
  · rename_i v exn cbs hv hc
    have h1 := qext_foldl (t0 := t0) (a0 := a0) (fun (w : World Rat) (cb : PyCb) => match cb with
        | .log k => w.emitAs a (4000 + (e : Int)) "cb" [k]) (by intro w x h; cases x; simpa using h) cbs
        (w.setPyEv e (fun x => { x with callbacks := none })) (by qx h0)
    cases exn <;> qx h1
  · qx h0

set_option maxHeartbeats 1600000 in
theorem execStmt_qext {t0 : Array Task} {a0 : Array (Activity Rat)} (a : ActId) (fs : List (Frame Rat)) (s : Stmt Rat)
    (hs : ∀ progs start, s ≠ .nestedRun progs start) (h0 : QExt t0 a0 w.tasks w.acts) : QExt t0 a0 (w.execStmt a fs s).tasks (w.execStmt a fs s).acts := by
  cases s
  case scope name untilN body => exact execStmt_scope_qext w a fs name untilN body h0
  case nestedRun progs start => exact (hs _ _ rfl).elim
  case pyInvokeCallbacks e => exact execStmt_callbacks_qext w a fs e h0
  all_goals (simp only [execStmt]; qx h0)

theorem stepRet_sub_qext {t0 : Array Task} {a0 : Array (Activity Rat)} (a : ActId) (l : List CondId) : ∀ (w : World Rat) (acc : List (CondId × SigId)) w' subs,
    World.stepRet.sub a w acc l = some (w', subs) → QExt t0 a0 w.tasks w.acts → QExt t0 a0 w'.tasks w'.acts := by
  induction l with
  | nil => intro w acc w' subs h h0; simp only [stepRet.sub, Option.some.injEq, Prod.mk.injEq] at h; obtain ⟨rfl, _⟩ := h; exact h0
  | cons ch rest ih =>
    intro w acc w' subs h h0
    simp only [stepRet.sub] at h
    split at h
    · exact ih _ _ _ _ h h0
    · split at h
      · rename_i w1 hs
        exact ih _ _ _ _ h (subscribe_qext hs (by qx h0))
      · cases h

theorem stepRetQ_connStart {t0 : Array Task} {a0 : Array (Activity Rat)} (a : ActId) (fs : List (Frame Rat)) (v : Val) (c : CondId) (h0 : QExt t0 a0 w.tasks w.acts) :
    QExt t0 a0 (w.stepRet a (.connStart c) fs v).tasks (w.stepRet a (.connStart c) fs v).acts := by
  simp only [stepRet]
  split
  · qx h0
  · split
    · rename_i w1 subs hs
      have h2 := stepRet_sub_qext a _ _ _ _ _ hs h0
      qx h2
    · qx h0

theorem stepRetQ_connHib {t0 : Array Task} {a0 : Array (Activity Rat)} (a : ActId) (fs : List (Frame Rat)) (v : Val) (c : CondId) (subs : List (CondId × SigId))
    (h0 : QExt t0 a0 w.tasks w.acts) : QExt t0 a0 (w.stepRet a (.connHib c subs) fs v).tasks (w.stepRet a (.connHib c subs) fs v).acts := by
  simp only [stepRet]
  have h1 := qext_foldl (t0 := t0) (a0 := a0) (fun (w : World Rat) (p : CondId × SigId) => (w.unsubscribe p.1 a p.2).1)
    (by intro w x h; exact unsubscribe_qext w _ _ _ h) subs.reverse w h0
  qx h1

theorem stepRaiseQ_connHib {t0 : Array Task} {a0 : Array (Activity Rat)} (a : ActId) (fs : List (Frame Rat)) (e : ExnId) (c : CondId) (subs : List (CondId × SigId))
    (h0 : QExt t0 a0 w.tasks w.acts) : QExt t0 a0 (w.stepRaise a (.connHib c subs) fs e).tasks (w.stepRaise a (.connHib c subs) fs e).acts := by
  simp only [stepRaise]
  have h1 := qext_foldl_pair (t0 := t0) (a0 := a0) (fun (p : World Rat × Bool) (q : CondId × SigId) =>
        let (w, sw) := p
        let sw := sw || (w.sig q.2).exn == e
        ((w.unsubscribe q.1 a q.2).1, sw)) (by intro p x h; exact unsubscribe_qext _ _ _ _ h) subs.reverse (w, false) h0
  split <;> qx h1

/-! ### the two case analyses -/

theorem stepRet_qext {t0 : Array Task} {a0 : Array (Activity Rat)} (a : ActId) (f : Frame Rat) (fs : List (Frame Rat)) (v : Val)
    (hf : ∀ progs start ss, f ≠ .seq (.nestedRun progs start :: ss)) (h0 : QExt t0 a0 w.tasks w.acts) : QExt t0 a0 (w.stepRet a f fs v).tasks (w.stepRet a f fs v).acts := by
  cases f with
  | seq l =>
    cases l with
    | nil => simp only [stepRet]; qx h0
    | cons s ss =>
      simp only [stepRet]
      exact execStmt_qext w a _ s (fun p st h => hf p st ss (by rw [h])) h0
  | connStart c => exact stepRetQ_connStart w a fs v c h0
  | connHib c subs => exact stepRetQ_connHib w a fs v c subs h0
  | wakeHib x0 => exact stepRetQ_wakeHib w a fs v x0 h0
  | notifHib x0 x1 => exact stepRetQ_notifHib w a fs v x0 x1 h0
  | foreverHib  => exact stepRetQ_foreverHib w a fs v  h0
  | awaitMark x0 => exact stepRetQ_awaitMark w a fs v x0 h0
  | sleepMark  => exact stepRetQ_sleepMark w a fs v  h0
  | tickEnd  => exact stepRetQ_tickEnd w a fs v  h0
  | condLoop x0 => exact stepRetQ_condLoop w a fs v x0 h0
  | retVal x0 => exact stepRetQ_retVal w a fs v x0 h0
  | retTrue  => exact stepRetQ_retTrue w a fs v  h0
  | taskResult x0 x1 => exact stepRetQ_taskResult w a fs v x0 x1 h0
  | taskStart x0 x1 x2 x3 => exact stepRetQ_taskStart w a fs v x0 x1 x2 x3 h0
  | taskPayload x0 => exact stepRetQ_taskPayload w a fs v x0 h0
  | scopeBody x0 => exact stepRetQ_scopeBody w a fs v x0 h0
  | scopeExitSet x0 => exact stepRetQ_scopeExitSet w a fs v x0 h0
  | scopeExitWait x0 x1 => exact stepRetQ_scopeExitWait w a fs v x0 x1 h0
  | tryBlock x0 => exact stepRetQ_tryBlock w a fs v x0 h0
  | finallyBlock x0 => exact stepRetQ_finallyBlock w a fs v x0 h0
  | reraise x0 => exact stepRetQ_reraise w a fs v x0 h0
  | closeResume  => exact stepRetQ_closeResume w a fs v  h0
  | lockWait x0 x1 => exact stepRetQ_lockWait w a fs v x0 x1 h0
  | lockBody x0 x1 => exact stepRetQ_lockBody w a fs v x0 x1 h0
  | qGetPop x0 => exact stepRetQ_qGetPop w a fs v x0 h0
  | gotValue  => exact stepRetQ_gotValue w a fs v  h0
  | cGotValue x0 x1 => exact stepRetQ_cGotValue w a fs v x0 x1 h0
  | qIterNext x0 x1 x2 => exact stepRetQ_qIterNext w a fs v x0 x1 x2 h0
  | qIterGot x0 x1 x2 => exact stepRetQ_qIterGot w a fs v x0 x1 x2 h0
  | cGetWait x0 x1 => exact stepRetQ_cGetWait w a fs v x0 x1 h0
  | cIterLoop x0 x1 x2 x3 => exact stepRetQ_cIterLoop w a fs v x0 x1 x2 x3 h0
  | cIterWait x0 x1 x2 x3 => exact stepRetQ_cIterWait w a fs v x0 x1 x2 x3 h0
  | cIterNext x0 x1 x2 => exact stepRetQ_cIterNext w a fs v x0 x1 x2 h0
  | borrowWait x0 x1 x2 => exact stepRetQ_borrowWait w a fs v x0 x1 x2 h0
  | borrowRemoved x0 x1 x2 => exact stepRetQ_borrowRemoved w a fs v x0 x1 x2 h0
  | borrowInserted x0 x1 x2 => exact stepRetQ_borrowInserted w a fs v x0 x1 x2 h0
  | borrowBody x0 x1 => exact stepRetQ_borrowBody w a fs v x0 x1 h0
  | borrowExit1 x0 x1 x2 => exact stepRetQ_borrowExit1 w a fs v x0 x1 x2 h0
  | borrowExit2 x0 => exact stepRetQ_borrowExit2 w a fs v x0 h0
  | resAdjust x0 x1 x2 => exact stepRetQ_resAdjust w a fs v x0 x1 x2 h0
  | pipeWindow x0 x1 x2 x3 x4 x5 x6 x7 => exact stepRetQ_pipeWindow w a fs v x0 x1 x2 x3 x4 x5 x6 x7 h0
  | tickWait x0 x1 x2 x3 x4 => exact stepRetQ_tickWait w a fs v x0 x1 x2 x3 x4 h0
  | tickBody x0 x1 x2 x3 x4 => exact stepRetQ_tickBody w a fs v x0 x1 x2 x3 x4 h0
  | collectAwait x0 x1 => exact stepRetQ_collectAwait w a fs v x0 x1 h0
  | firstMonitor x0 => exact stepRetQ_firstMonitor w a fs v x0 h0
  | firstNext x0 x1 x2 x3 => exact stepRetQ_firstNext w a fs v x0 x1 x2 x3 h0
  | firstGot x0 x1 x2 x3 => exact stepRetQ_firstGot w a fs v x0 x1 x2 x3 h0
  | firstYield x0 x1 x2 x3 => exact stepRetQ_firstYield w a fs v x0 x1 x2 x3 h0
  | firstEnd x0 x1 => exact stepRetQ_firstEnd w a fs v x0 x1 h0
  | pyGen x0 => exact stepRetQ_pyGen w a fs v x0 h0
  | pyPayloadStart x0 => exact stepRetQ_pyPayloadStart w a fs v x0 h0
  | pyPayloadLoop x0 => exact stepRetQ_pyPayloadLoop w a fs v x0 h0
  | pyWaited x0 x1 => exact stepRetQ_pyWaited w a fs v x0 x1 h0
  | pyNativeWaited x0 => exact stepRetQ_pyNativeWaited w a fs v x0 h0
  | pyUntilEnd  => exact stepRetQ_pyUntilEnd w a fs v  h0
  | pyWithEnd  => exact stepRetQ_pyWithEnd w a fs v  h0
  | pyAwaited x0 => exact stepRetQ_pyAwaited w a fs v x0 h0
  | pyCheckLoop x0 x1 x2 => exact stepRetQ_pyCheckLoop w a fs v x0 x1 x2 h0
  | pyCode x0 => exact stepRetQ_pyCode w a fs v x0 h0
  | raiseStop  => exact stepRetQ_raiseStop w a fs v  h0
  | transferDone x0 => exact stepRetQ_transferDone w a fs v x0 h0
  | borrowMark x0 => exact stepRetQ_borrowMark w a fs v x0 h0
  | nestedRun  => exact stepRetQ_nestedRun w a fs v  h0
  | taskDelay x0 x1 => exact stepRetQ_taskDelay w a fs v x0 x1 h0
  | scopeClose x0 x1 x2 x3 x4 x5 => exact stepRetQ_scopeClose w a fs v x0 x1 x2 x3 x4 x5 h0
  | asyncTrigger x0 => exact stepRetQ_asyncTrigger w a fs v x0 h0
  | coroutineEnd  => exact stepRetQ_coroutineEnd w a fs v  h0

theorem stepRaise_qext {t0 : Array Task} {a0 : Array (Activity Rat)} (a : ActId) (f : Frame Rat) (fs : List (Frame Rat)) (e : ExnId) (h0 : QExt t0 a0 w.tasks w.acts) :
    QExt t0 a0 (w.stepRaise a f fs e).tasks (w.stepRaise a f fs e).acts := by
  cases f with
  | connHib c subs => exact stepRaiseQ_connHib w a fs e c subs h0
  | seq x0 => exact stepRaiseQ_seq w a fs e x0 h0
  | wakeHib x0 => exact stepRaiseQ_wakeHib w a fs e x0 h0
  | notifHib x0 x1 => exact stepRaiseQ_notifHib w a fs e x0 x1 h0
  | foreverHib  => exact stepRaiseQ_foreverHib w a fs e  h0
  | awaitMark x0 => exact stepRaiseQ_awaitMark w a fs e x0 h0
  | sleepMark  => exact stepRaiseQ_sleepMark w a fs e  h0
  | tickEnd  => exact stepRaiseQ_tickEnd w a fs e  h0
  | condLoop x0 => exact stepRaiseQ_condLoop w a fs e x0 h0
  | connStart x0 => exact stepRaiseQ_connStart w a fs e x0 h0
  | retVal x0 => exact stepRaiseQ_retVal w a fs e x0 h0
  | retTrue  => exact stepRaiseQ_retTrue w a fs e  h0
  | taskResult x0 x1 => exact stepRaiseQ_taskResult w a fs e x0 x1 h0
  | taskStart x0 x1 x2 x3 => exact stepRaiseQ_taskStart w a fs e x0 x1 x2 x3 h0
  | taskPayload x0 => exact stepRaiseQ_taskPayload w a fs e x0 h0
  | scopeBody x0 => exact stepRaiseQ_scopeBody w a fs e x0 h0
  | scopeExitSet x0 => exact stepRaiseQ_scopeExitSet w a fs e x0 h0
  | scopeExitWait x0 x1 => exact stepRaiseQ_scopeExitWait w a fs e x0 x1 h0
  | tryBlock x0 => exact stepRaiseQ_tryBlock w a fs e x0 h0
  | finallyBlock x0 => exact stepRaiseQ_finallyBlock w a fs e x0 h0
  | reraise x0 => exact stepRaiseQ_reraise w a fs e x0 h0
  | closeResume  => exact stepRaiseQ_closeResume w a fs e  h0
  | lockWait x0 x1 => exact stepRaiseQ_lockWait w a fs e x0 x1 h0
  | lockBody x0 x1 => exact stepRaiseQ_lockBody w a fs e x0 x1 h0
  | qGetPop x0 => exact stepRaiseQ_qGetPop w a fs e x0 h0
  | gotValue  => exact stepRaiseQ_gotValue w a fs e  h0
  | cGotValue x0 x1 => exact stepRaiseQ_cGotValue w a fs e x0 x1 h0
  | qIterNext x0 x1 x2 => exact stepRaiseQ_qIterNext w a fs e x0 x1 x2 h0
  | qIterGot x0 x1 x2 => exact stepRaiseQ_qIterGot w a fs e x0 x1 x2 h0
  | cGetWait x0 x1 => exact stepRaiseQ_cGetWait w a fs e x0 x1 h0
  | cIterLoop x0 x1 x2 x3 => exact stepRaiseQ_cIterLoop w a fs e x0 x1 x2 x3 h0
  | cIterWait x0 x1 x2 x3 => exact stepRaiseQ_cIterWait w a fs e x0 x1 x2 x3 h0
  | cIterNext x0 x1 x2 => exact stepRaiseQ_cIterNext w a fs e x0 x1 x2 h0
  | borrowWait x0 x1 x2 => exact stepRaiseQ_borrowWait w a fs e x0 x1 x2 h0
  | borrowRemoved x0 x1 x2 => exact stepRaiseQ_borrowRemoved w a fs e x0 x1 x2 h0
  | borrowInserted x0 x1 x2 => exact stepRaiseQ_borrowInserted w a fs e x0 x1 x2 h0
  | borrowBody x0 x1 => exact stepRaiseQ_borrowBody w a fs e x0 x1 h0
  | borrowExit1 x0 x1 x2 => exact stepRaiseQ_borrowExit1 w a fs e x0 x1 x2 h0
  | borrowExit2 x0 => exact stepRaiseQ_borrowExit2 w a fs e x0 h0
  | resAdjust x0 x1 x2 => exact stepRaiseQ_resAdjust w a fs e x0 x1 x2 h0
  | pipeWindow x0 x1 x2 x3 x4 x5 x6 x7 => exact stepRaiseQ_pipeWindow w a fs e x0 x1 x2 x3 x4 x5 x6 x7 h0
  | tickWait x0 x1 x2 x3 x4 => exact stepRaiseQ_tickWait w a fs e x0 x1 x2 x3 x4 h0
  | tickBody x0 x1 x2 x3 x4 => exact stepRaiseQ_tickBody w a fs e x0 x1 x2 x3 x4 h0
  | collectAwait x0 x1 => exact stepRaiseQ_collectAwait w a fs e x0 x1 h0
  | firstMonitor x0 => exact stepRaiseQ_firstMonitor w a fs e x0 h0
  | firstNext x0 x1 x2 x3 => exact stepRaiseQ_firstNext w a fs e x0 x1 x2 x3 h0
  | firstGot x0 x1 x2 x3 => exact stepRaiseQ_firstGot w a fs e x0 x1 x2 x3 h0
  | firstYield x0 x1 x2 x3 => exact stepRaiseQ_firstYield w a fs e x0 x1 x2 x3 h0
  | firstEnd x0 x1 => exact stepRaiseQ_firstEnd w a fs e x0 x1 h0
  | pyGen x0 => exact stepRaiseQ_pyGen w a fs e x0 h0
  | pyPayloadStart x0 => exact stepRaiseQ_pyPayloadStart w a fs e x0 h0
  | pyPayloadLoop x0 => exact stepRaiseQ_pyPayloadLoop w a fs e x0 h0
  | pyWaited x0 x1 => exact stepRaiseQ_pyWaited w a fs e x0 x1 h0
  | pyNativeWaited x0 => exact stepRaiseQ_pyNativeWaited w a fs e x0 h0
  | pyUntilEnd  => exact stepRaiseQ_pyUntilEnd w a fs e  h0
  | pyWithEnd  => exact stepRaiseQ_pyWithEnd w a fs e  h0
  | pyAwaited x0 => exact stepRaiseQ_pyAwaited w a fs e x0 h0
  | pyCheckLoop x0 x1 x2 => exact stepRaiseQ_pyCheckLoop w a fs e x0 x1 x2 h0
  | pyCode x0 => exact stepRaiseQ_pyCode w a fs e x0 h0
  | raiseStop  => exact stepRaiseQ_raiseStop w a fs e  h0
  | transferDone x0 => exact stepRaiseQ_transferDone w a fs e x0 h0
  | borrowMark x0 => exact stepRaiseQ_borrowMark w a fs e x0 h0
  | nestedRun  => exact stepRaiseQ_nestedRun w a fs e  h0
  | taskDelay x0 x1 => exact stepRaiseQ_taskDelay w a fs e x0 x1 h0
  | scopeClose x0 x1 x2 x3 x4 x5 => exact stepRaiseQ_scopeClose w a fs e x0 x1 x2 x3 x4 x5 h0
  | asyncTrigger x0 => exact stepRaiseQ_asyncTrigger w a fs e x0 h0
  | coroutineEnd  => exact stepRaiseQ_coroutineEnd w a fs e  h0

end World
end USim.Machine
