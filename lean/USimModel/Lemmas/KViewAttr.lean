import Lean
/-- lemmas `(f w ..).kv = w.kv`: code that does not touch the kernel view (see `Lemmas/KView.lean`) -/
register_simp_attr kvsimp

/-- lemmas `(f w ..).tv = w.tv`: code that writes nothing to the trace (see `Lemmas/TView.lean`) -/
register_simp_attr tvsimp

/-- lemmas `(f w ..).pending = w.pending` (see `Lemmas/PView.lean`) -/
register_simp_attr pvsimp

/-- lemmas `(f w ..).sigs = w.sigs` (see `Lemmas/SView.lean`) -/
register_simp_attr svsimp
register_simp_attr qvsimp

namespace USim.Machine
open Lean Elab Tactic

/-- one backward step for a goal `R x0 (f w ..).view` (or `(f w ..).1.view`): apply the lemma `f<suffix>` of the function at
the head of the world term.  Dispatching on the name is much faster than trying the lemmas of all functions one after the
other; the tactic only *finds* the lemma, the kernel checks the resulting proof. -/
def viewApply (suffix : String) : TacticM Unit := do
  let g ← getMainGoal
  let t := (← instantiateMVars (← g.getType)).cleanupAnnotations
  let some x := t.getAppArgs.back? | throwError "viewApply: not an application"
  let some x := x.cleanupAnnotations.getAppArgs.back? | throwError "viewApply: no world term"
  let x := x.cleanupAnnotations
  let x := if x.isAppOf ``Prod.fst then (x.getAppArgs.back?.getD x).cleanupAnnotations else x
  match x.getAppFn with
  | .const n _ =>
    let lem := n.appendAfter suffix
    if (← getEnv).contains lem then
      evalTactic (← `(tactic| apply $(mkIdent lem)))
    else throwError "viewApply: no lemma {lem}"
  | _ => throwError "viewApply: head is not a constant"

end USim.Machine
