import Lean
/-- lemmas `(f w ..).kv = w.kv`: code that does not touch the kernel view (see `Lemmas/KView.lean`) -/
register_simp_attr kvsimp

/-- lemmas `(f w ..).tv = w.tv`: code that writes nothing to the trace (see `Lemmas/TView.lean`) -/
register_simp_attr tvsimp

/-- lemmas `(f w ..).pending = w.pending` (see `Lemmas/PView.lean`) -/
register_simp_attr pvsimp
