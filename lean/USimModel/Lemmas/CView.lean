import USimModel.Lemmas.OView
import USimModel.Lemmas.CViewAttr
/-!
# The structure view of the whole machine: conditions keep their operands, listeners are only ever added

A seventh pass over the inventory of `Lemmas/KView.lean`, for five more tables:

* `w.conds` - a notification / condition object keeps its **shape**: its class and its operands (the flag an inverse
  belongs to, the children of `a & b` / `a | b`, the task of `task.done`, the operands of a comparison, the date of a time
  condition).  Only the mutable parts change: the value of a flag, the `done` value, "trigger scheduled", the waiters.
  C08's boolean algebra "on the current values" presupposes that `a & b` is for ever the conjunction of *those* operands.
* `w.tracked`, `w.res` - the listeners of a tracked value / resource level (the comparisons that must be told about every
  change) are only ever **appended**: none is dropped, none is reordered (C08 "never missed", C02 notification order).
* `w.locks` - a lock keeps its notification (C09); `w.pipes` - a pipe keeps its congestion notification (C13).
-/
set_option linter.unusedVariables false
set_option linter.unusedSimpArgs false
namespace USim.Machine
open TimeLike USim.Prim.Kernel Lean

/-- the five tables at some moment -/
structure CV where
  conds : Array (Cond Rat)
  tracked : Array Tracked
  res : Array Res
  locks : Array Lock
  pipes : Array (Pipe Rat)

/-- what a condition object *is*, without what changes: the value of a flag, of `done`, "trigger scheduled" -/
def CondKind.shape : CondKind Rat → CondKind Rat
  | .flag _ inv => .flag false inv
  | .after d _ => .after d false
  | .done t _ inv => .done t false inv
  | k => k

def CondOk (x y : Cond Rat) : Prop := y.kind.shape = x.kind.shape
def TrackedOk (x y : Tracked) : Prop := x.listeners <+: y.listeners
def ResOk (x y : Res) : Prop := x.listeners <+: y.listeners ∧ y.parent = x.parent
def LockOk (x y : Lock) : Prop := y.notif = x.notif
def PipeOk (x y : Pipe Rat) : Prop := y.congested = x.congested ∧ y.throughput = x.throughput

theorem CondOk.refl (x : Cond Rat) : CondOk x x := rfl
theorem CondOk.trans (x y z : Cond Rat) (h1 : CondOk x y) (h2 : CondOk y z) : CondOk x z := Eq.trans h2 h1
theorem TrackedOk.refl (x : Tracked) : TrackedOk x x := List.prefix_refl _
theorem TrackedOk.trans (x y z : Tracked) (h1 : TrackedOk x y) (h2 : TrackedOk y z) : TrackedOk x z := List.IsPrefix.trans h1 h2
theorem ResOk.refl (x : Res) : ResOk x x := ⟨List.prefix_refl _, rfl⟩
theorem ResOk.trans (x y z : Res) (h1 : ResOk x y) (h2 : ResOk y z) : ResOk x z := ⟨List.IsPrefix.trans h1.1 h2.1, h2.2.trans h1.2⟩
theorem LockOk.refl (x : Lock) : LockOk x x := rfl
theorem LockOk.trans (x y z : Lock) (h1 : LockOk x y) (h2 : LockOk y z) : LockOk x z := Eq.trans h2 h1
theorem PipeOk.refl (x : Pipe Rat) : PipeOk x x := ⟨rfl, rfl⟩
theorem PipeOk.trans (x y z : Pipe Rat) (h1 : PipeOk x y) (h2 : PipeOk y z) : PipeOk x z := ⟨h2.1.trans h1.1, h2.2.trans h1.2⟩

/-- the five tables `c t r l p` extend the tables `o0` -/
structure CExt (o0 : CV) (c : Array (Cond Rat)) (t : Array Tracked) (r : Array Res) (l : Array Lock) (p : Array (Pipe Rat)) : Prop where
  conds : ArrExt CondOk o0.conds c
  tracked : ArrExt TrackedOk o0.tracked t
  res : ArrExt ResOk o0.res r
  locks : ArrExt LockOk o0.locks l
  pipes : ArrExt PipeOk o0.pipes p

/-- `CX(o0, w)`: the five tables of the world `w` extend `o0` -/
macro "CX(" o:term ", " x:term ")" : term =>
  `(CExt $o ($x).conds ($x).tracked ($x).res ($x).locks ($x).pipes)

namespace CExt
variable {o0 : CV} {c : Array (Cond Rat)} {t : Array Tracked} {r : Array Res} {l : Array Lock} {p : Array (Pipe Rat)}

theorem refl' (c : Array (Cond Rat)) (t : Array Tracked) (r : Array Res) (l : Array Lock) (p : Array (Pipe Rat)) :
    CExt ⟨c, t, r, l, p⟩ c t r l p :=
  ⟨ArrExt.refl CondOk.refl _, ArrExt.refl TrackedOk.refl _, ArrExt.refl ResOk.refl _, ArrExt.refl LockOk.refl _,
   ArrExt.refl PipeOk.refl _⟩

theorem trans' {c1 : Array (Cond Rat)} {t1 : Array Tracked} {r1 : Array Res} {l1 : Array Lock} {p1 : Array (Pipe Rat)}
    (h1 : CExt o0 c t r l p) (h2 : CExt ⟨c, t, r, l, p⟩ c1 t1 r1 l1 p1) : CExt o0 c1 t1 r1 l1 p1 :=
  ⟨ArrExt.trans CondOk.trans h1.conds h2.conds, ArrExt.trans TrackedOk.trans h1.tracked h2.tracked,
   ArrExt.trans ResOk.trans h1.res h2.res, ArrExt.trans LockOk.trans h1.locks h2.locks,
   ArrExt.trans PipeOk.trans h1.pipes h2.pipes⟩

theorem pushCond (x : Cond Rat) (h : CExt o0 c t r l p) : CExt o0 (c.push x) t r l p := { h with conds := h.conds.push x }
theorem pushTracked (x : Tracked) (h : CExt o0 c t r l p) : CExt o0 c (t.push x) r l p := { h with tracked := h.tracked.push x }
theorem pushRes (x : Res) (h : CExt o0 c t r l p) : CExt o0 c t (r.push x) l p := { h with res := h.res.push x }
theorem pushLock (x : Lock) (h : CExt o0 c t r l p) : CExt o0 c t r (l.push x) p := { h with locks := h.locks.push x }
theorem pushPipe (x : Pipe Rat) (h : CExt o0 c t r l p) : CExt o0 c t r l (p.push x) := { h with pipes := h.pipes.push x }

theorem modCond' (j : Nat) (f : Cond Rat → Cond Rat) (hf : CondOk (c.getD j default) (f (c.getD j default)))
    (h : CExt o0 c t r l p) : CExt o0 (c.modify j f) t r l p := { h with conds := h.conds.modify' CondOk.trans j f hf }
theorem modTracked (j : Nat) (f : Tracked → Tracked) (hf : ∀ x, TrackedOk x (f x)) (h : CExt o0 c t r l p) :
    CExt o0 c (t.modify j f) r l p := { h with tracked := h.tracked.modify TrackedOk.trans j f hf }
theorem modRes (j : Nat) (f : Res → Res) (hf : ∀ x, ResOk x (f x)) (h : CExt o0 c t r l p) :
    CExt o0 c t (r.modify j f) l p := { h with res := h.res.modify ResOk.trans j f hf }
theorem modLock (j : Nat) (f : Lock → Lock) (hf : ∀ x, LockOk x (f x)) (h : CExt o0 c t r l p) :
    CExt o0 c t r (l.modify j f) p := { h with locks := h.locks.modify LockOk.trans j f hf }
theorem modPipe (j : Nat) (f : Pipe Rat → Pipe Rat) (hf : ∀ x, PipeOk x (f x)) (h : CExt o0 c t r l p) :
    CExt o0 c t r l (p.modify j f) := { h with pipes := h.pipes.modify PipeOk.trans j f hf }
end CExt

namespace World
variable (w : World Rat)

/-- the five tables of a world -/
def cv (w : World Rat) : CV := ⟨w.conds, w.tracked, w.res, w.locks, w.pipes⟩

/-- `cvlemma name binders : T` states that `T` has the five tables of `w` (five simp lemmas, by `rfl`) -/
syntax "cvlemma " ident bracketedBinder* " : " term : command
macro_rules
  | `(cvlemma $n:ident $bs:bracketedBinder* : $t:term) => do
    let n1 := mkIdent (n.getId.appendAfter "_conds")
    let n2 := mkIdent (n.getId.appendAfter "_tracked")
    let n3 := mkIdent (n.getId.appendAfter "_res")
    let n4 := mkIdent (n.getId.appendAfter "_locks")
    let n5 := mkIdent (n.getId.appendAfter "_pipes")
    let w := mkIdent `w
    `(@[simp, cvsimp] theorem $n1 $bs:bracketedBinder* : ($t).conds = ($w).conds := rfl
      @[simp, cvsimp] theorem $n2 $bs:bracketedBinder* : ($t).tracked = ($w).tracked := rfl
      @[simp, cvsimp] theorem $n3 $bs:bracketedBinder* : ($t).res = ($w).res := rfl
      @[simp, cvsimp] theorem $n4 $bs:bracketedBinder* : ($t).locks = ($w).locks := rfl
      @[simp, cvsimp] theorem $n5 $bs:bracketedBinder* : ($t).pipes = ($w).pipes := rfl)

syntax "cvlemmaSplit " ident bracketedBinder* " : " term " unfolding " ident : command
macro_rules
  | `(cvlemmaSplit $n:ident $bs:bracketedBinder* : $t:term unfolding $f:ident) => do
    let n1 := mkIdent (n.getId.appendAfter "_conds")
    let n2 := mkIdent (n.getId.appendAfter "_tracked")
    let n3 := mkIdent (n.getId.appendAfter "_res")
    let n4 := mkIdent (n.getId.appendAfter "_locks")
    let n5 := mkIdent (n.getId.appendAfter "_pipes")
    let w := mkIdent `w
    `(@[simp, cvsimp] theorem $n1 $bs:bracketedBinder* : ($t).conds = ($w).conds := by unfold $f; split <;> rfl
      @[simp, cvsimp] theorem $n2 $bs:bracketedBinder* : ($t).tracked = ($w).tracked := by unfold $f; split <;> rfl
      @[simp, cvsimp] theorem $n3 $bs:bracketedBinder* : ($t).res = ($w).res := by unfold $f; split <;> rfl
      @[simp, cvsimp] theorem $n4 $bs:bracketedBinder* : ($t).locks = ($w).locks := by unfold $f; split <;> rfl
      @[simp, cvsimp] theorem $n5 $bs:bracketedBinder* : ($t).pipes = ($w).pipes := by unfold $f; split <;> rfl)

/-! ### primitives that touch none of the five tables -/
cvlemma cv_setSig (s : SigId) (f : Sig → Sig) : w.setSig s f
cvlemma cv_setScope (s : ScopeId) (f : Scope → Scope) : w.setScope s f
cvlemma cv_setPyEv (e : Nat) (f : PyEvent → PyEvent) : w.setPyEv e f
cvlemma cv_newExn (c : ExnCls) : (w.newExn c).1
cvlemma cv_newSig (k : SigKind) : (w.newSig k).1
cvlemma cv_setAct (s : ActId) (f : Activity Rat → Activity Rat) : w.setAct s f
cvlemma cv_setFrames (a : ActId) (fs : List (Frame Rat)) : w.setFrames a fs
cvlemma cv_setTask (s : TaskId) (f : Task → Task) : w.setTask s f
cvlemma cv_newAct (fs : List (Frame Rat)) (r : Bool) (l : Int) : (w.newAct fs r l).1
cvlemma cv_revoke (s : SigId) : w.revoke s
cvlemma cv_emit (a : ActId) (t : String) (l : List Int) : w.emit a t l
cvlemma cv_emitAs (a : ActId) (lb : Int) (t : String) (l : List Int) : w.emitAs a lb t l
cvlemma cv_setPyProc (e : Nat) (f : PyProc Rat → PyProc Rat) : w.setPyProc e f
cvlemma cv_pyBind (x : Name) (e : Nat) : w.pyBind x e
cvlemmaSplit cv_setMode (m : Mode) : w.setMode m unfolding setMode
cvlemmaSplit cv_emitScope (a : ActId) (s : ScopeId) (t : String) (l : List Int) : w.emitScope a s t l unfolding emitScope
cvlemmaSplit cv_scheduleNow (a : ActId) (s : Option SigId) : w.scheduleNow a s unfolding scheduleNow
theorem cext_foldl {α} {o0 : CV} (f : World Rat → α → World Rat)
    (h : ∀ w x, CX(o0, w) → CX(o0, (f w x))) (l : List α) :
    ∀ (w : World Rat), CX(o0, w) → CX(o0, (l.foldl f w)) := by
  induction l with
  | nil => intro w h0; exact h0
  | cons x xs ih => intro w h0; exact ih _ (h w x h0)

theorem cext_foldl_pair {α β} {o0 : CV} (f : World Rat × β → α → World Rat × β)
    (h : ∀ p x, CX(o0, p.1) → CX(o0, (f p x).1)) (l : List α) :
    ∀ (p : World Rat × β), CX(o0, p.1) → CX(o0, (l.foldl f p).1) := by
  induction l with
  | nil => intro w h0; exact h0
  | cons x xs ih => intro w h0; exact ih _ (h w x h0)

/-- one backward step: the lemma `f_cext` of the function at the head of the world term (folds over worlds included) -/
elab "cx_apply" : tactic => do
  let g ← Lean.Elab.Tactic.getMainGoal
  let t := (← Lean.instantiateMVars (← g.getType)).cleanupAnnotations
  let some x := t.getAppArgs.back? | throwError "cx_apply: not an application"
  let some x := x.cleanupAnnotations.getAppArgs.back? | throwError "cx_apply: no world term"
  let x := x.cleanupAnnotations
  let x := if x.isAppOf ``Prod.fst then (x.getAppArgs.back?.getD x).cleanupAnnotations else x
  match x.getAppFn with
  | .const n _ =>
    if n == ``List.foldl then
      Lean.Elab.Tactic.evalTactic (← `(tactic| (refine cext_foldl _ (fun w x h => ?_) _ _ ?_ <;> try (dsimp only))))
      return
    let lem := n.appendAfter "_cext"
    if (← Lean.getEnv).contains lem then
      Lean.Elab.Tactic.evalTactic (← `(tactic| apply $(Lean.mkIdent lem)))
    else throwError "cx_apply: no lemma {lem}"
  | _ => throwError "cx_apply: head is not a constant"

/-! ### the writers of the five tables -/
theorem newCond_cext {o0 : CV} (k : CondKind Rat) (h0 : CX(o0, w)) : CX(o0, (w.newCond k).1) := CExt.pushCond _ h0

theorem setCond_cext {o0 : CV} (c : CondId) (f : Cond Rat → Cond Rat) (hf : CondOk (w.conds.getD c default) (f (w.conds.getD c default)))
    (h0 : CX(o0, w)) : CX(o0, (w.setCond c f)) := CExt.modCond' c f hf h0

theorem schedule_cv {a : ActId} {s : Option SigId} {wh : When Rat} {w w' : World Rat}
    (h : w.schedule a s wh = some w') : w'.cv = w.cv := by
  have hm : ∀ (w1 : World Rat), w1.cv = w.cv → (match s with
      | some s => w1.setSig s (fun x => { x with scheduled := true })
      | none => w1).cv = w.cv := by
    intro w1 h1
    cases s with
    | none => exact h1
    | some s => exact h1
  unfold schedule at h
  cases wh with
  | now => simp only [Option.some.injEq] at h; subst h; exact hm _ rfl
  | delay d =>
    simp only at h
    split at h
    · exact absurd h (by simp)
    · simp only [Option.some.injEq] at h; subst h; exact hm _ rfl
  | at_ t =>
    simp only at h
    split at h
    · exact absurd h (by simp)
    · simp only [Option.some.injEq] at h; subst h; exact hm _ rfl

theorem cext_of_cv {o0 : CV} {w w' : World Rat} (h : w'.cv = w.cv) (h0 : CX(o0, w)) : CX(o0, w') := by
  have e1 : w'.conds = w.conds := congrArg CV.conds h
  have e2 : w'.tracked = w.tracked := congrArg CV.tracked h
  have e3 : w'.res = w.res := congrArg CV.res h
  have e4 : w'.locks = w.locks := congrArg CV.locks h
  have e5 : w'.pipes = w.pipes := congrArg CV.pipes h
  rw [e1, e2, e3, e4, e5]; exact h0

theorem schedule_cext {o0 : CV} {a : ActId} {s : Option SigId} {wh : When Rat} {w w' : World Rat}
    (h : w.schedule a s wh = some w') (h0 : CX(o0, w)) : CX(o0, w') := by
  exact cext_of_cv (schedule_cv h) h0

/-- closes the side goals of the writers for the updates that occur in the machine -/
syntax "ck_close" : tactic
macro_rules
  | `(tactic| ck_close) => `(tactic| ((try intro x); first
      | exact CondOk.refl _
      | exact TrackedOk.refl _
      | exact List.prefix_append _ _
      | exact ResOk.refl _
      | exact ⟨List.prefix_append _ _, rfl⟩
      | exact ⟨List.prefix_refl _, rfl⟩
      | exact LockOk.refl _
      | exact PipeOk.refl _
      | exact ⟨rfl, rfl⟩
      | (unfold TrackedOk; split <;> first | exact List.prefix_refl _ | exact List.prefix_append _ _)
      | (unfold CondOk; (try simp only [cvsimp]); split <;> simp_all [World.cond, CondKind.shape]; done)
      | (unfold CondOk; (try simp only [cvsimp]); simp_all [World.cond, CondKind.shape]; done)))

theorem cext_buildNorm_both :
    (∀ (w : World Rat) (c : CExpr Rat), ∀ w' i, w.buildNorm c = some (w', i) → ∀ o0, CX(o0, w) → CX(o0, w')) ∧
    (∀ (w : World Rat) (cs : List (CExpr Rat)), ∀ w' is, w.buildNorms cs = some (w', is) → ∀ o0, CX(o0, w) → CX(o0, w')) := by
  apply World.buildNorm.mutual_induct
  case case4 =>
    intro w c h1 h2 w' i h
    cases c <;> first | (exact (h1 _ rfl).elim) | (exact (h2 _ rfl).elim) | (simp [buildNorm] at h)
  case case12 =>
    intro w cs ih w' i h o0 h0
    simp only [buildNorm, Option.map_eq_some_iff, Prod.exists] at h
    obtain ⟨w1, ids, h1, h2⟩ := h
    have := ih w1 ids h1 o0 h0
    have e : w' = (w1.newCond (.all ids)).1 := by rw [h2]
    rw [e]; exact newCond_cext _ _ this
  case case13 =>
    intro w cs ih w' i h o0 h0
    simp only [buildNorm, Option.map_eq_some_iff, Prod.exists] at h
    obtain ⟨w1, ids, h1, h2⟩ := h
    have := ih w1 ids h1 o0 h0
    have e : w' = (w1.newCond (.any ids)).1 := by rw [h2]
    rw [e]; exact newCond_cext _ _ this
  case case18 =>
    intro w a b iha ihb w' i h o0 h0
    simp only [buildNorm, Option.bind_eq_some_iff, Option.map_eq_some_iff, Prod.exists] at h
    obtain ⟨w1, ia, h1, w2, ib, h2, h3⟩ := h
    have e := congrArg Prod.fst h3
    simp only at e
    rw [← e]; exact newCond_cext _ _ (ihb (w1, ia) w2 ib h2 o0 (iha w1 ia h1 o0 h0))
  case case19 =>
    intro w a b iha ihb w' i h o0 h0
    simp only [buildNorm, Option.bind_eq_some_iff, Option.map_eq_some_iff, Prod.exists] at h
    obtain ⟨w1, ia, h1, w2, ib, h2, h3⟩ := h
    have e := congrArg Prod.fst h3
    simp only at e
    rw [← e]; exact newCond_cext _ _ (ihb (w1, ia) w2 ib h2 o0 (iha w1 ia h1 o0 h0))
  case case21 =>
    intro w c cs ih2 ih1 w' is h o0 h0
    simp only [buildNorms, Option.bind_eq_some_iff, Option.map_eq_some_iff, Prod.exists, Prod.mk.injEq] at h
    obtain ⟨w1, i1, h1, w2, is2, h2, rfl, _⟩ := h
    exact ih1 w1 w2 is2 h2 o0 (ih2 w1 i1 h1 o0 h0)
  all_goals intros
  all_goals rename_i h o0 h0
  all_goals (simp only [buildNorm, buildNorms, Option.map_eq_some_iff, Option.some.injEq, Prod.mk.injEq] at h)
  all_goals (try obtain ⟨_, _, h⟩ := h)
  all_goals (try split at h)
  all_goals (try simp only [Prod.mk.injEq] at h)
  all_goals (try (obtain ⟨rfl, _⟩ := h))
  all_goals (try (have e := congrArg Prod.fst h; dsimp only at e; subst e))
  all_goals (try subst_vars)
  all_goals (try dsimp only)
  all_goals (first
    | exact h0
    | (subst_vars; exact h0)
    | exact newCond_cext _ _ h0
    | exact newCond_cext _ _ (newCond_cext _ _ h0)
    | (refine CExt.modTracked _ _ ?_ ?_ <;> first | exact newCond_cext _ _ h0 | ck_close)
    | (refine CExt.modRes _ _ ?_ ?_ <;> first | exact newCond_cext _ _ h0 | ck_close)
    | (refine CExt.modTracked _ _ ?_ (CExt.modTracked _ _ ?_ ?_) <;> first | exact newCond_cext _ _ h0 | ck_close))

theorem buildCond_cext {o0 : CV} {w w' : World Rat} {c : CExpr Rat} {i : CondId} (h : w.buildCond c = some (w', i))
    (h0 : CX(o0, w)) : CX(o0, w') := by
  unfold buildCond at h
  simp only [Option.bind_eq_some_iff] at h
  obtain ⟨_, _, h⟩ := h
  exact cext_buildNorm_both.1 _ _ _ _ h o0 h0

/-- lemmas of functions that return `Option (World _)`: applied to a hypothesis `_ = some w'` (rules added below) -/
syntax "cx_hyp" : tactic
macro_rules | `(tactic| cx_hyp) => `(tactic| fail "no hypothesis lemma applies")

/-- backward chaining for goals `CX(o0, (f w ..))` from a hypothesis `h : CX(o0, w)` -/
syntax "cx " ident : tactic
macro_rules
  | `(tactic| cx $h:ident) => `(tactic| (repeat' (first
      | (with_reducible exact $h)
      | (with_reducible assumption)
      | ck_close
      | (simp only [cvsimp, ite_self]; with_reducible exact $h)
      | (simp only [cvsimp, ite_self]; with_reducible assumption)
      | (refine buildCond_cext ‹_ = some (_, _)› ?_)
      | (simp only [cvsimp, ite_self])
      | (have hfst := congrArg Prod.fst ‹_ = (_, _)›; dsimp only at hfst; subst hfst)
      | (refine schedule_cext ‹_ = some _› ?_)
      | cx_hyp
      | (with_reducible refine CExt.pushCond _ ?_)
      | (with_reducible refine CExt.pushTracked _ ?_)
      | (with_reducible refine CExt.pushRes _ ?_)
      | (with_reducible refine CExt.pushLock _ ?_)
      | (with_reducible refine CExt.pushPipe _ ?_)
      | (with_reducible refine CExt.modTracked _ _ ?_ ?_)
      | (with_reducible refine CExt.modRes _ _ ?_ ?_)
      | (with_reducible refine CExt.modLock _ _ ?_ ?_)
      | (with_reducible refine CExt.modPipe _ _ ?_ ?_)
      | cx_apply
      | split
      | (dsimp only; split))))

theorem newFlag_cext {o0 : CV} (h0 : CX(o0, w)) : CX(o0, w.newFlag.1) := by unfold newFlag; cx h0
theorem pyNewEvent_cext {o0 : CV} (k : PyKind) (h0 : CX(o0, w)) : CX(o0, (w.pyNewEvent k).1) := by unfold pyNewEvent; cx h0
theorem retTo_cext {o0 : CV} (a : ActId) (fs : List (Frame Rat)) (v : Val) (h0 : CX(o0, w)) :
    CX(o0, (w.retTo a fs v)) := by unfold retTo; cx h0
theorem raiseTo_cext {o0 : CV} (a : ActId) (fs : List (Frame Rat)) (e : ExnId) (h0 : CX(o0, w)) :
    CX(o0, (w.raiseTo a fs e)) := by unfold raiseTo; cx h0
theorem raiseNew_cext {o0 : CV} (a : ActId) (fs : List (Frame Rat)) (c : ExnCls) (h0 : CX(o0, w)) :
    CX(o0, (w.raiseNew a fs c)) := by unfold raiseNew; cx h0
theorem hibernate_cext {o0 : CV} (a : ActId) (fs : List (Frame Rat)) (h0 : CX(o0, w)) :
    CX(o0, (w.hibernate a fs)) := by unfold hibernate; cx h0
theorem finishAct_cext {o0 : CV} (a : ActId) (m : Mode) (h0 : CX(o0, w)) :
    CX(o0, (w.finishAct a m)) := by unfold finishAct; cx h0
theorem awakeAll_cext {o0 : CV} (c : CondId) (h0 : CX(o0, w)) :
    CX(o0, (w.awakeAll c)) := by unfold awakeAll; cx h0
theorem awakeNext_cext {o0 : CV} (c : CondId) (h0 : CX(o0, w)) :
    CX(o0, ((w.awakeNext c).1)) := by unfold awakeNext; cx h0
theorem setDone_cext {o0 : CV} (t : TaskId) (h0 : CX(o0, w)) :
    CX(o0, (w.setDone t)) := by unfold setDone; cx h0
theorem childFinished_cext {o0 : CV} (t : TaskId) (f : Bool) (h0 : CX(o0, w)) :
    CX(o0, (w.childFinished t f)) := by unfold childFinished; cx h0
theorem taskFinalize_cext {o0 : CV} (t : TaskId) (h0 : CX(o0, w)) :
    CX(o0, (w.taskFinalize t)) := by unfold taskFinalize; cx h0
theorem newConcurrent_cext {o0 : CV} (c : List ExnId) (h0 : CX(o0, w)) :
    CX(o0, ((w.newConcurrent c).1)) := by unfold newConcurrent; cx h0
theorem propagateExceptions_cext {o0 : CV} (s : ScopeId) (e : Option ExnId) (h0 : CX(o0, w)) :
    CX(o0, ((w.propagateExceptions s e).1)) := by unfold propagateExceptions; cx h0
theorem condSubscribe_cext {o0 : CV} (c : CondId) (a : ActId) (s : SigId) (h0 : CX(o0, w)) :
    CX(o0, (w.condSubscribe c a s)) := by unfold condSubscribe; cx h0
theorem plainUnsubscribe_cext {o0 : CV} (c : CondId) (a : ActId) (s : SigId) (h0 : CX(o0, w)) :
    CX(o0, ((w.plainUnsubscribe c a s).1)) := by unfold plainUnsubscribe; cx h0
theorem unsubscribe_cext {o0 : CV} (c : CondId) (a : ActId) (s : SigId) (h0 : CX(o0, w)) :
    CX(o0, ((w.unsubscribe c a s).1)) := by unfold unsubscribe; cx h0
theorem doPostpone_cext {o0 : CV} (a : ActId) (fs : List (Frame Rat)) (h0 : CX(o0, w)) :
    CX(o0, (w.doPostpone a fs)) := by unfold doPostpone; cx h0

theorem ensureTrigger_cext {o0 : CV} {c : CondId} {w w' : World Rat} (h : w.ensureTrigger c = some w')
    (h0 : CX(o0, w)) : CX(o0, w') := by
  unfold ensureTrigger at h
  split at h
  · exact schedule_cext h (by cx h0)
  · cases h; exact h0
macro_rules | `(tactic| cx_hyp) => `(tactic| refine ensureTrigger_cext ‹_ = some _› ?_)

theorem subscribe_cext {o0 : CV} {c : CondId} {a : ActId} {s : SigId} {w w' : World Rat} (h : w.subscribe c a s = some w')
    (h0 : CX(o0, w)) : CX(o0, w') := by
  unfold subscribe at h
  split at h
  · cases h; cx h0
  · exact schedule_cext h (by cx h0)
  · split at h
    · cases h; cx h0
    · simp only [Option.map_eq_some_iff] at h
      obtain ⟨w1, h1, rfl⟩ := h
      have h2 := ensureTrigger_cext h1 h0
      cx h2
  · split at h
    · cases h; cx h0
    · split at h
      · cases h; cx h0
      · simp only [Option.map_eq_some_iff] at h
        obtain ⟨w1, h1, rfl⟩ := h
        have h2 := ensureTrigger_cext h1 h0
        cx h2
  · cases h; cx h0
macro_rules | `(tactic| cx_hyp) => `(tactic| refine subscribe_cext ‹_ = some _› ?_)

theorem doSuspend_cext {o0 : CV} (a : ActId) (fs : List (Frame Rat)) (wh : When Rat) (h0 : CX(o0, w)) :
    CX(o0, (w.doSuspend a fs wh)) := by unfold doSuspend; cx h0
theorem doNotifAwait_cext {o0 : CV} (a : ActId) (fs : List (Frame Rat)) (c : CondId) (h0 : CX(o0, w)) :
    CX(o0, (w.doNotifAwait a fs c)) := by unfold doNotifAwait; cx h0
theorem doCondAwait_cext {o0 : CV} (a : ActId) (fs : List (Frame Rat)) (c : CondId) (h0 : CX(o0, w)) :
    CX(o0, (w.doCondAwait a fs c)) := by unfold doCondAwait; cx h0
theorem lockRelease_cext {o0 : CV} (l : Name) (h0 : CX(o0, w)) :
    CX(o0, (w.lockRelease l)) := by unfold lockRelease; cx h0
theorem beginClose_cext {o0 : CV} (a : ActId) (fs : List (Frame Rat)) (s : ScopeId) (o : Option ExnId) (g : Bool) (h0 : CX(o0, w)) :
    CX(o0, (w.beginClose a fs s o g)) := by unfold beginClose; cx h0
theorem continueClose_cext {o0 : CV} (a : ActId) (fs : List (Frame Rat)) (s : ScopeId) (todo : List TaskId) (r : ExnId) (v : Bool) (o : Option ExnId) (g : Bool) (h0 : CX(o0, w)) :
    CX(o0, (w.continueClose a fs s todo r v o g)) := by unfold continueClose; cx h0
theorem queueGetEnter_cext {o0 : CV} (a : ActId) (fs : List (Frame Rat)) (q : Name) (h0 : CX(o0, w)) :
    CX(o0, (w.queueGetEnter a fs q)) := by unfold queueGetEnter; cx h0
theorem lockAcquired_cext {o0 : CV} (a : ActId) (fs : List (Frame Rat)) (l : Name) (c : LockCont Rat) (h0 : CX(o0, w)) :
    CX(o0, (w.lockAcquired a fs l c)) := by unfold lockAcquired; cx h0
theorem acquireLock_cext {o0 : CV} (a : ActId) (fs : List (Frame Rat)) (l : Name) (c : LockCont Rat) (h0 : CX(o0, w)) :
    CX(o0, (w.acquireLock a fs l c)) := by unfold acquireLock; cx h0
theorem setLevels_cext {o0 : CV} (r : Name) (lv : List Int) (h0 : CX(o0, w)) :
    CX(o0, (w.setLevels r lv)) := by unfold setLevels; cx h0
theorem setTrackedValue_cext {o0 : CV} (x : Name) (v : Int) (h0 : CX(o0, w)) :
    CX(o0, (w.setTrackedValue x v)) := by unfold setTrackedValue; cx h0
theorem throttle_cext {o0 : CV} (p : Name) (h0 : CX(o0, w)) :
    CX(o0, (w.throttle p)) := by unfold throttle; cx h0
theorem pipeFinish_cext {o0 : CV} (p : Name) (i : Nat) (h0 : CX(o0, w)) :
    CX(o0, (w.pipeFinish p i)) := by unfold pipeFinish; cx h0
theorem pipeWindowStart_cext {o0 : CV} (a : ActId) (fs : List (Frame Rat)) (p : Name) (i : Nat) (t1 t2 t3 : Rat) (h0 : CX(o0, w)) :
    CX(o0, (w.pipeWindowStart a fs p i t1 t2 t3)) := by unfold pipeWindowStart; cx h0
theorem tickNext_cext {o0 : CV} (a : ActId) (fs : List (Frame Rat)) (b : Bool) (p l : Rat) (n : Nat) (body : List (Stmt Rat)) (h0 : CX(o0, w)) :
    CX(o0, (w.tickNext a fs b p l n body)) := by unfold tickNext; cx h0
theorem borrowEnter_cext {o0 : CV} (a : ActId) (fs : List (Frame Rat)) (r : Name) (am : List Int) (bind : Name) (body : List (Stmt Rat)) (c : Bool) (h0 : CX(o0, w)) :
    CX(o0, (w.borrowEnter a fs r am bind body c)) := by unfold borrowEnter; cx h0
theorem flagForceSet_cext {o0 : CV} (c : CondId) (h0 : CX(o0, w)) :
    CX(o0, (w.flagForceSet c)) := by unfold flagForceSet; cx h0
theorem pyScopeDo_cext {o0 : CV} (sid : ScopeId) (prog : List (Stmt Rat)) (after : Option Rat) (h0 : CX(o0, w)) :
    CX(o0, ((w.pyScopeDo sid prog after).1)) := by unfold pyScopeDo; cx h0
theorem pySchedule_cext {o0 : CV} (prog : List (Stmt Rat)) (d : Option Rat) (h0 : CX(o0, w)) :
    CX(o0, ((w.pySchedule prog d).1)) := by unfold pySchedule; cx h0
theorem pyTrigger_cext {o0 : CV} (e : Nat) (h0 : CX(o0, w)) :
    CX(o0, ((w.pyTrigger e).1)) := by unfold pyTrigger; cx h0
theorem pySetValue_cext {o0 : CV} (e : Nat) (v : Int × Option ExnId) (cv : List Nat) (h0 : CX(o0, w)) :
    CX(o0, ((w.pySetValue e v cv).1)) := by unfold pySetValue; cx h0
theorem pyInterrupt_cext {o0 : CV} (p : Nat) (c : Int) (h0 : CX(o0, w)) :
    CX(o0, (w.pyInterrupt p c)) := by unfold pyInterrupt; cx h0
theorem pySync_cext {o0 : CV} (a : ActId) (lbl : Int) (i : PyInstr Rat) (h0 : CX(o0, w)) :
    CX(o0, ((w.pySync a lbl i).1)) := by unfold pySync; cx h0
theorem pyWaitInterruptible_cext {o0 : CV} (a : ActId) (fs : List (Frame Rat)) (p e : Nat) (h0 : CX(o0, w)) :
    CX(o0, (w.pyWaitInterruptible a fs p e)) := by unfold pyWaitInterruptible; cx h0
theorem pyResume_cext {o0 : CV} (a : ActId) (fs : List (Frame Rat)) (p : Nat) (what : List Int) (e : Option ExnId) (h0 : CX(o0, w)) :
    CX(o0, (w.pyResume a fs p what e)) := by unfold pyResume; cx h0
theorem pyCheckContinue_cext {o0 : CV} (a : ActId) (fs : List (Frame Rat)) (e : Nat) (un : List Nat) (obs : Nat) (h0 : CX(o0, w)) :
    CX(o0, (w.pyCheckContinue a fs e un obs)) := by unfold pyCheckContinue; cx h0
theorem pyCondFail_cext {o0 : CV} (a : ActId) (fs : List (Frame Rat)) (e m : Nat) (h0 : CX(o0, w)) :
    CX(o0, (w.pyCondFail a fs e m)) := by unfold pyCondFail; cx h0
theorem pyGenStep_cext {o0 : CV} (a : ActId) (fs : List (Frame Rat)) (p : Nat) (h0 : CX(o0, w)) :
    CX(o0, (w.pyGenStep a fs p)) := by unfold pyGenStep; cx h0

end World
end USim.Machine
