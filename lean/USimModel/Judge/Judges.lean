import USimModel.Judge.Trace
import USimModel.Prim.Pipe
/-
The properties as executable predicates on traces.  Every judge returns the list of clauses of
the property's statement that the trace violates (`[]` = the trace satisfies the property).
The same definitions are evaluated on implementation traces (oracle, failing-input search) and
on model traces (where the theorems / the exact correspondence say they must hold).
-/
namespace USim.Judge

abbrev Verdict := List String

def idx (o : Obs) : List (Ev × Nat) := o.events.zipIdx

def ofLabel (o : Obs) (l : Int) : List (Ev × Nat) := (idx o).filter (fun p => p.1.label == l)

def labels (o : Obs) : List Int := (o.events.map (·.label)).eraseDups

def arg (e : Ev) (i : Nat) : Int := e.args.getD i 0

def fail (c : Bool) (msg : String) : Verdict := if c then [msg] else []

/-- consecutive pairs of a list -/
def pairs {α} : List α → List (α × α)
  | a :: b :: rest => (a, b) :: pairs (b :: rest)
  | _ => []

/-! ### C01 - virtual time -/

def judgeC01 (o : Obs) : Verdict :=
  let mono := (pairs (o.events.filter (·.label < 10000))).any (fun p => p.1.time > p.2.time)
  let waits := (labels o).flatMap (fun l =>
    (pairs (ofLabel o l)).flatMap (fun p =>
      let (b, e) := (p.1.1, p.2.1)
      if b.tag == "abegin" then
        let k := arg b 0
        let x := ratArg (arg b 1) (arg b 2)
        let t0 := b.time
        let t1 := e.time
        let done := e.tag == "awaited"
        -- a wait that is still pending when `run()` returned normally (`stuck`): quiescence was reached, so a wait for a delay or a
        -- date that had not passed when it began can only be pending if its wake-up was lost
        let lost := e.tag == "stuck" && o.crash == [] && (k == 0 || k == 1 || (k == 2 && x ≥ t0) || k == 5)
        fail lost s!"a wait (kind {k}, {x}) begun at {t0} was never resumed although the run went on to quiescence" ++
        if k == 0 then fail (done && t1 != t0 + x) s!"delay: waited from {t0} for {x}, resumed at {t1}"
        else if k == 1 then fail (done && t1 != max t0 x) s!"time >= {x}: asked at {t0}, resumed at {t1}"
        else if k == 2 then fail (done && (x < t0 || t1 != x)) s!"time == {x}: asked at {t0}, resumed at {t1}"
        else if k == 3 then fail (done && (!(t0 < x) || t1 != t0)) s!"time < {x}: asked at {t0}, resumed at {t1}"
        else if k == 4 then fail done s!"eternity resumed at {t1}"
        else if k == 5 then fail (done && t1 != t0) s!"instant: asked at {t0}, resumed at {t1}"
        else []
      else []))
  let spawns := (idx o).flatMap (fun p =>
    let e := p.1
    if e.tag == "spawn" then
      let child := arg e 1
      let k := arg e 3
      let x := ratArg (arg e 4) (arg e 5)
      match (ofLabel o child).head? with
      | some (first, _) =>
        let expected := if k == 1 then e.time + x else if k == 2 then x else e.time
        fail (first.time != expected) s!"task {child} spawned at {e.time} (kind {k}, {x}) started at {first.time}"
      | none => []
    else [])
  fail mono "clock decreased between two consecutive events" ++ waits ++ spawns

/-- float-time traces (times are IEEE bit patterns of non-negative doubles: order and equality are
meaningful, arithmetic is not): dates only -/
def judgeC01f (o : Obs) : Verdict :=
  let mono := (pairs (o.events.filter (·.label < 10000))).any (fun p => p.1.time > p.2.time)
  let waits := (labels o).flatMap (fun l =>
    (pairs (ofLabel o l)).flatMap (fun p =>
      let (b, e) := (p.1.1, p.2.1)
      if b.tag == "abegin" && e.tag == "awaited" then
        let k := arg b 0
        let x : Rat := (arg b 1 : Int)
        if k == 1 then fail (e.time != max b.time x) s!"time >= date (bits {x}): asked at bits {b.time}, resumed at bits {e.time}"
        else if k == 2 then fail (e.time != x) s!"time == date (bits {x}): resumed at bits {e.time}"
        else []
      else []))
  let spawns := (idx o).flatMap (fun p =>
    let e := p.1
    if e.tag == "spawn" && arg e 3 == 2 then
      match (ofLabel o (arg e 1)).head? with
      | some (first, _) => fail (first.time != ((arg e 4 : Int) : Rat)) s!"task {arg e 1} spawned at date bits {arg e 4} started at bits {first.time}"
      | none => []
    else [])
  fail mono "clock decreased between two consecutive events" ++ waits ++ spawns

/-! ### C02 - FIFO order of activities that become runnable for the same time -/

def judgeC02 (o : Obs) : Verdict :=
  -- timed waits (delays) that end at the same time complete in the order in which they began
  let waits : List (Nat × Nat × Rat) := (labels o).flatMap (fun l =>
    (pairs (ofLabel o l)).filterMap (fun p =>
      if p.1.1.tag == "abegin" && arg p.1.1 0 == 0 && ratArg (arg p.1.1 1) (arg p.1.1 2) > 0 && p.2.1.tag == "awaited" then
        some (p.1.2, p.2.2, p.2.1.time) else none))
  fail (waits.any (fun a => waits.any (fun b => a.1 < b.1 && a.2.2 == b.2.2 && a.2.1 > b.2.1)))
    "two delays ending at the same time resumed in the opposite order of their start" ++
  -- an activity whose delay ends at t was made runnable before t began (its activation sits in the bucket of t); a task made
  -- runnable by `cancel()` *during* t comes after all of them: the delivery of the cancellation (the task ends cancelled,
  -- catches CancelTask or starts its clean-up with it) cannot precede the resumption of such a delay
  (idx o).flatMap (fun c =>
    if c.1.tag == "cancel" && arg c.1 1 == 2 then
      match (idx o).find? (fun d => d.2 > c.2 && d.1.label == arg c.1 0) with
      | some d =>
        let delivered := (d.1.tag == "tfin" && arg d.1 0 == 1) || (d.1.tag == "caught" && arg d.1 0 == 10) ||
          (d.1.tag == "cleanup" && arg d.1 0 == 1 && arg d.1 1 == 10)
        fail (delivered && d.1.time == c.1.time && waits.any (fun w => w.2.2 == d.1.time && w.2.1 > d.2))
          s!"task {arg c.1 0} was made runnable by cancel() during time {c.1.time} and ran (event {d.2}) before an activity whose delay ended at that time and was queued before"
      | none => []
    else []) ++
  -- tasks started "now" by one activity in one turn - `do(x)`, `do(x, after=0)`, `do(x, at=now)` - become runnable in the
  -- order of the calls, so they run in that order
  (let immediate (e : Ev) : Bool :=
      arg e 3 == 0 || (arg e 3 == 1 && arg e 4 == 0) || (arg e 3 == 2 && ratArg (arg e 4) (arg e 5) == e.time)
   let spawns := (idx o).filter (fun p => p.1.tag == "spawn" && immediate p.1)
   -- (scenario convention: a task whose program *begins* with `log 700+i` - only then is its first event the moment of its
   -- first turn; a program that begins with a silent operation has had turns before its first event)
   let firstOf (l : Int) : Option Nat := ((idx o).find? (fun q => q.1.label == l)).bind (fun q =>
     if q.1.tag == "log" && arg q.1 0 ≥ 700 && arg q.1 0 < 800 then some q.2 else none)
   (pairs spawns).flatMap (fun ab =>
     let a := ab.1
     let b := ab.2
     if a.1.label == b.1.label && a.1.time == b.1.time && a.1.turn == b.1.turn then
       match firstOf (arg a.1 1), firstOf (arg b.1 1) with
       | some i, some j => fail (i > j)
           s!"tasks {arg a.1 1} and {arg b.1 1} were started in this order by activity {a.1.label} at {a.1.time}, both without delay, but ran in the opposite order"
       | _, _ => []
     else [])) ++
  -- the levels of a resource supply iterate in the order of their names - not in the order of some earlier spelling that a
  -- cache happens to remember
  o.events.flatMap (fun e =>
    fail (e.tag == "lvorder" && e.args != (List.range e.args.length).map (fun (i : Nat) => (i : Int)))
      s!"the levels of a supply declared at {e.time} iterate in the order {e.args} of its (sorted) names")

/-! ### C03 - the kernel never fails on its own -/

/-- split a flattened list of exception codes into the individual codes -/
def decodeCodes : Nat → List Int → List (List Int)
  | 0, _ => []
  | _, [] => []
  | fuel+1, c :: rest =>
    let n := if c == 0 || c == 1 then 2 else if c == 2 then 1 else 0
    (c :: rest.take n) :: decodeCodes fuel (rest.drop n)

def internalCode (c : Int) : Bool := c == 9 || c == 10 || c == 11 || c == 12 || c == 14 || c == 15 || c == 99 || c == -1

def judgeC03 (o : Obs) : Verdict :=
  let top := match o.crash with
    | [] => []
    | 3 :: rest => fail ((decodeCodes rest.length rest).any (fun c => internalCode (c.headD 0)))
        s!"run() ended with a Concurrent carrying an internal error/signal: {o.crash}"
    | c :: _ => fail (internalCode c) s!"run() ended with an internal error/signal: {o.crash}"
  let inner := o.events.flatMap (fun e =>
    if e.tag == "caught" then
      match e.args with
      | 3 :: rest => fail ((decodeCodes rest.length rest).any (fun c => internalCode (c.headD 0)))
          s!"activity {e.label} caught a Concurrent carrying an internal error/signal: {e.args}"
      | c :: _ => fail (internalCode c) s!"activity {e.label} caught an internal error/signal: {e.args}"
      | [] => []
    else if e.tag == "tfin" && arg e 0 == 3 then
      fail (internalCode (arg e 1)) s!"task {e.label} failed with an internal error/signal: {e.args}"
    else [])
  top ++ inner

/-! ### C04 - containment -/

/-- labels of all tasks below scope instance `inst` (`fuel` bounds the nesting depth) -/
def descendants (o : Obs) : Nat → Int → List Int
  | 0, _ => []
  | fuel+1, inst =>
    let kids := o.events.filterMap (fun e => if e.tag == "spawn" && arg e 0 == inst then some (arg e 1) else none)
    kids ++ kids.flatMap (fun k =>
      (o.events.filterMap (fun e => if e.tag == "senter" && e.label == k then some (arg e 1) else none)).flatMap
        (descendants o fuel))

def judgeC04 (o : Obs) : Verdict :=
  (idx o).flatMap (fun p =>
    let e := p.1
    if e.tag == "sexit" then
      let inst := arg e 1
      let desc := descendants o 6 inst
      let late := (idx o).filter (fun q => q.2 > p.2 && desc.contains q.1.label)
      let lateSpawn := (idx o).any (fun q => q.2 > p.2 && q.1.tag == "spawn" && arg q.1 0 == inst)
      let plain := o.events.any (fun s => s.tag == "senter" && arg s 1 == inst && arg s 2 == 0)
      let kids : List (Int × Int) := o.events.filterMap (fun s => if s.tag == "spawn" && arg s 0 == inst then some (arg s 1, arg s 2) else none)
      let tfin (l : Int) : Option (Ev × Nat) := (idx o).find? (fun q => q.1.label == l && q.1.tag == "tfin")
      let silentAbort := kids.any (fun k => match tfin k.1 with
        | some (f, _) => arg f 0 == 3 && (arg f 1 == 1 || arg f 1 == 2 || arg f 1 == 11)
        | none => false)
      let started (l : Int) : Bool := o.events.any (fun q => q.label == l)
      let closedNonVol := kids.filter (fun (k : Int × Int) => k.2 == (0 : Int) && started k.1 && (match tfin k.1 with
        | some (f, _) => arg f 0 == 2
        | none => false))
      let nonVolEnd := (kids.filter (·.2 == 0)).filterMap (fun k => (tfin k.1).map (·.2))
      let volClosed := (kids.filter (·.2 == 1)).filterMap (fun k => match tfin k.1 with
        | some (f, i) => if arg f 0 == 2 then some i else none
        | none => none)
      fail (arg e 3 != 0) s!"scope {arg e 0}#{inst} left at {e.time} with {arg e 3} task(s) not done" ++
      fail (!late.isEmpty) s!"scope {arg e 0}#{inst} left at {e.time} but its tasks still act afterwards: {late.map (fun q => (q.1.label, q.1.tag, q.1.time))}" ++
      fail lateSpawn s!"a task was spawned into scope {arg e 0}#{inst} after it had ended" ++
      fail (plain && arg e 2 == 0 && !silentAbort && !closedNonVol.isEmpty)
        s!"scope {arg e 0}#{inst} ended normally but closed non-volatile children {closedNonVol.map (·.1)}" ++
      -- a non-volatile child that nobody cancelled and that never even began, although the block was left normally and the run
      -- went on to its end: it was closed before its first turn (children spawned during shutdown are waited for as well)
      fail (plain && arg e 2 == 0 && !silentAbort && o.crash == [] &&
            kids.any (fun k => k.2 == 0 && (tfin k.1).isNone && !(o.events.any (fun c => c.tag == "cancel" && arg c 0 == k.1))))
        s!"scope {arg e 0}#{inst} ended normally at {e.time} but a non-volatile child that nobody cancelled never ran to completion" ++
      fail (plain && arg e 2 == 0 && !silentAbort && volClosed.any (fun v => nonVolEnd.any (fun n => n > v)))
        s!"scope {arg e 0}#{inst}: a volatile child was closed before a non-volatile one had finished"
    else [])

/-! ### C05 - how a scope fails -/

def suppressedCode (c : Int) : Bool := c == 1 || c == 2 || c == 11
def privilegedCode (c : List Int) : Bool := (c.headD 0 == 0 && (c.getD 1 0 == 5 || c.getD 1 0 == 6 || c.getD 1 0 == 7)) || c.headD 0 == 9

def judgeC05 (o : Obs) : Verdict :=
  -- a scope fails as itself (the body's exception) or as Concurrent - never as one of the library's own signals
  (let leaked (c : Int) : Bool := c == 10 || c == 11 || c == 14 || c == 15 || c == 99 || c == -1
   fail (leaked (o.crash.headD 0) ||
         (o.crash.headD 0 == 3 && (decodeCodes o.crash.length (o.crash.drop 1)).any (fun c => leaked (c.headD 0))))
     s!"run() ended with an internal signal/error that escaped from a scope: {o.crash}" ++
   fail (o.crash.headD 0 == 3 && (decodeCodes o.crash.length (o.crash.drop 1)).any (fun c => suppressedCode (c.headD 0)))
     s!"run() ended with a Concurrent that contains a cancellation/closure: {o.crash}") ++
  (idx o).flatMap (fun p =>
    let e := p.1
    if e.tag == "sexit" && arg e 2 == 1 then
      let inst := arg e 1
      -- the handler that catches the scope's exception, if the very next event of that activity
      match (ofLabel o e.label).find? (fun q => q.2 > p.2) with
      | some (c, _) =>
        -- (a block that is left by an exception coming out of an inner block - the event just before is that
        -- inner block's exceptional exit in the same turn - passes that exception on: body_exception_wins)
        let fromInner := (((ofLabel o e.label).filter (fun q => q.2 < p.2)).getLast?).any (fun q =>
          q.1.tag == "sexit" && arg q.1 2 == 1 && q.1.time == e.time && q.1.turn == e.turn)
        if c.tag == "caught" && c.time == e.time && !fromInner then
          let kids := o.events.filterMap (fun s => if s.tag == "spawn" && arg s 0 == inst then some (arg s 1) else none)
          let fails := (idx o).filterMap (fun q =>
            if q.2 < p.2 && q.1.tag == "tfin" && arg q.1 0 == 3 && kids.contains q.1.label then some (q.1.args.drop 1, q.1.time) else none)
          let regular := fails.filter (fun f => !suppressedCode (f.1.headD 0))
          let priv := regular.find? (fun f => privilegedCode f.1)
          match c.args with
          | 3 :: rest =>
            let got := decodeCodes rest.length rest
            fail (priv.isSome) s!"scope {arg e 0}#{inst}: a privileged child failure {priv.map (·.1)} was wrapped in Concurrent" ++
            fail (got != regular.map (·.1)) s!"scope {arg e 0}#{inst}: Concurrent carries {got}, direct children failed with {regular.map (·.1)}" ++
            fail ((got.filter (fun g => g.headD 9 == 0)).eraseDups.length != (got.filter (fun g => g.headD 9 == 0)).length)
              s!"scope {arg e 0}#{inst}: Concurrent carries the same exception object more than once: {got}" ++
            fail (got.any (fun g => suppressedCode (g.headD 0) || internalCode (g.headD 0))) s!"Concurrent contains a cancellation/closure/signal: {got}" ++
            (match regular.head? with
             | some f => fail (e.time != f.2) s!"scope {arg e 0}#{inst}: first child failure at {f.2}, block ended at {e.time}"
             | none => [])
          | 0 :: rest =>
            -- a (non-privileged) exception object that was raised in a child leaves the block only inside a Concurrent -
            -- also when the body was just awaiting that child (exception objects carry the number of their `raise`)
            fail (!privilegedCode c.args && regular.any (fun f => f.1 == c.args))
              s!"scope {arg e 0}#{inst}: the failure {c.args} of a child left the block unwrapped (not as Concurrent)" ++
            (let _ := rest; [])
          | _ => []
        else []
      | none => []
    else [])

/-! ### C06 - task lifecycle -/

def rank (c : Int) : Nat := if c == 1 then 0 else if c == 2 then 1 else 2

def judgeC06 (o : Obs) : Verdict :=
  -- every awaiter receives the outcome: nobody is left waiting for a task that is done
  (o.events.filter (·.tag == "stuck")).map (fun e =>
    s!"activity {e.label} is still waiting at the end of the run for a task (or condition) that is done") ++
  let tasks := (o.events.filterMap (fun e => if e.tag == "spawn" then some (arg e 1) else none)).eraseDups
  tasks.flatMap (fun t =>
    let codes := o.events.filterMap (fun e =>
      if (e.tag == "status" || e.tag == "cancel") && arg e 0 == t then some (arg e 1) else none)
    let backwards := (pairs codes).any (fun p => rank p.1 > rank p.2 || (rank p.1 == 2 && p.1 != p.2))
    let rets := (o.events.filterMap (fun e => if e.tag == "taskret" && arg e 0 == t then some (arg e 1) else none)).eraseDups
    let cancelCreated := (idx o).filter (fun p => p.1.tag == "cancel" && arg p.1 0 == t && arg p.1 1 == 1)
    let ran := o.events.any (fun e => e.label == t)
    let cancelRunning := (idx o).filterMap (fun p =>
      if p.1.tag == "cancel" && arg p.1 0 == t && arg p.1 1 == 2 then some p.1 else none)
    let fin := o.events.find? (fun e => e.label == t && e.tag == "tfin")
    let tokens := o.events.filterMap (fun e => if e.tag == "cancel" && arg e 0 == t then some (arg e 2) else none)
    let caughtTok := o.events.filterMap (fun e =>
      if e.tag == "caught" && arg e 0 == 1 && arg e 1 == t - 1000 then some (arg e 2) else none)
    -- the cancellation that takes effect is the first one issued while the task was not finished; later ones do nothing
    let effective := o.events.filter (fun e => e.tag == "cancel" && arg e 0 == t && (arg e 1 == 1 || arg e 1 == 2))
    -- cancellations the payload swallowed (`except CancelTask` inside the task; they arrive in the order of the requests)
    let swallowed := (o.events.filter (fun e => e.label == t && e.tag == "caught" && arg e 0 == 10)).length
    let runningToks := cancelRunning.map (fun e => arg e 2)
    fail (caughtTok.any (fun k => (runningToks.take swallowed).contains k && !(runningToks.drop swallowed).contains k))
      s!"task {t}: awaiters saw TaskCancelled with token {caughtTok}, but the task swallowed the cancellation(s) {runningToks.take swallowed} and went on" ++
    fail (caughtTok.any (fun k => !(effective.map (fun e => arg e 2)).contains k))
      s!"task {t}: an awaiter saw TaskCancelled with token {caughtTok}, but only the cancels {effective.map (fun e => arg e 2)} were issued while the task was unfinished" ++
    (match effective.head? with
     | some e => fail (arg e 1 == 1 && caughtTok.any (· != arg e 2))
         s!"task {t} was cancelled before it started with token {arg e 2}, awaiters saw {caughtTok}: the outcome changed after the task was done"
     | none => []) ++
    fail backwards s!"task {t}: status went backwards or changed after completion: {codes}" ++
    -- a task ends by a cancellation only if somebody cancelled *it* (cancelling one task never cancels another)
    fail ((fin.any (fun f => arg f 0 == 1) || !caughtTok.isEmpty) && tokens.isEmpty)
      s!"task {t} ended cancelled{if caughtTok.isEmpty then "" else s!" (awaiters saw the token {caughtTok})"} although cancel() was never called on it" ++
    fail (rets.length > 1) s!"task {t}: awaiters received different results {rets}" ++
    fail (!cancelCreated.isEmpty && ran) s!"task {t} was cancelled before it started but its code ran" ++
    -- a cancel of a started task is raised inside it in the same time step: the task ends there, or
    -- its clean-up code starts there
    (idx o).flatMap (fun p =>
      if p.1.tag == "cancel" && arg p.1 0 == t && arg p.1 1 == 2 && ran then
        let later := (idx o).filter (fun q => q.2 > p.2 && q.1.label == t && (q.1.tag == "tfin" || q.1.tag == "cleanup" || (q.1.tag == "caught" && arg q.1 0 == 10)))
        let finishedBefore := (idx o).any (fun q => q.2 < p.2 && q.1.label == t && q.1.tag == "tfin")
        fail (!finishedBefore && o.crash == [] && !(later.any (fun q => q.1.time == p.1.time)))
          s!"task {t} was cancelled at {p.1.time} while running but nothing was raised in it in that time step"
      else []) ++
    fail (internalCode (o.crash.headD 0)) s!"the run ended with an internal error {o.crash}" ++
    fail (caughtTok.any (fun k => !tokens.contains k)) s!"task {t}: an awaiter saw TaskCancelled with a token {caughtTok} never passed to cancel {tokens}")

/-! ### C07 - until() -/

def flagTrueAt (o : Obs) (f : Int) (upto : Nat) : Bool :=
  ((idx o).filter (fun p => p.2 < upto && p.1.tag == "setflag" && arg p.1 0 == f)).getLast?.map (fun p => arg p.1 1 == 1) |>.getD false

/-- `userErrors`: the programs of the family may themselves violate preconditions that usim checks
with `assert` (e.g. `do(at=<past date>)`); an `AssertionError` outcome is then not a defect -/
def judgeC07 (o : Obs) (userErrors : Bool := false) : Verdict :=
  let hasUntil := o.events.any (fun e => e.tag == "senter" && arg e 2 != 0)
  let internal (c : Int) : Bool := internalCode c && !(userErrors && c == 9)
  let crashInternal := internal (o.crash.headD 0) ||
    (o.crash.headD 0 == 3 && (decodeCodes o.crash.length (o.crash.drop 1)).any (fun c => internal (c.headD 0)))
  fail (hasUntil && crashInternal) s!"a program with until-blocks ended by raising an internal signal/error: run() ended with {o.crash}" ++
  (idx o).flatMap (fun p =>
    let e := p.1
    if e.tag == "senter" && arg e 2 != 0 then
      let inst := arg e 1
      let k := arg e 2
      let x := ratArg (arg e 3) (arg e 4)
      let t0 := e.time
      -- the trigger time (none = never / not computable)
      let trigger : Option Rat :=
        if k == 1 then some (t0 + x)
        else if k == 2 then some (max t0 x)
        else if k == 3 then (if x ≥ t0 then some x else none)
        else if k == 4 then (if t0 < x then some t0 else none)
        else if k == 5 || k == 6 then
          let want : Int := if k == 5 then 1 else 0
          let f := arg e 3
          if flagTrueAt o f p.2 == (want == 1) then some t0
          else ((idx o).find? (fun q => q.2 > p.2 && q.1.tag == "setflag" && arg q.1 0 == f && arg q.1 1 == want)).map (·.1.time)
        else if k == 7 || k == 8 then
          -- `a | b` / `a & b` over two flags: the first moment (event index) at which it holds
          let f := arg e 3
          let g := arg e 4
          let holds (i : Nat) : Bool := if k == 7 then flagTrueAt o f i || flagTrueAt o g i else flagTrueAt o f i && flagTrueAt o g i
          if holds p.2 then some t0
          else ((idx o).find? (fun q => q.2 > p.2 && q.1.tag == "setflag" && holds (q.2 + 1))).map (·.1.time)
        else none
      match (idx o).find? (fun q => q.1.tag == "sexit" && arg q.1 1 == inst), trigger with
      | some (x, _), some t => fail (x.time > t) s!"until-scope {arg e 0}#{inst} entered at {t0}: notification fired at {t} but the block ended at {x.time}"
      | none, some t =>
        -- the block never ended although its notification fired before the end of the run
        fail (o.crash == [] && t < o.final && !(o.unfinished.isEmpty)) s!"until-scope {arg e 0}#{inst}: notification fired at {t} but the block never ended"
      | _, none => []
    else [])

/-- `run(.., till=T)` executes nothing at a virtual time later than T (and ends without raising on its own account) -/
def judgeC07till (o : Obs) (till : Rat) (userErrors : Bool := false) : Verdict :=
  fail (internalCode (o.crash.headD 0) && !(userErrors && (o.crash.headD 0 == 9 || o.crash.headD 0 == 12)))
    s!"run(till={till}) ended with an internal error {o.crash}" ++
  ((o.events.filter (fun (e : Ev) => e.time > till && e.label < 10000)).take 3).map (fun (e : Ev) =>
    s!"run(till={till}): activity {e.label} still acts at {e.time} ({e.tag})")

/-! ### C08 - conditions -/

def judgeC08 (o : Obs) : Verdict :=
  o.events.flatMap (fun e =>
    if e.tag == "awaited" then fail (arg e 0 != 1) s!"activity {e.label}: await returned at {e.time} although the condition is false"
    else if e.tag == "stuck" then [s!"activity {e.label} is still waiting at quiescence ({e.time}) although its condition holds"]
    else if e.tag == "alg" then fail (arg e 0 != arg e 1) s!"activity {e.label}: bool(condition) = {arg e 0} but and/or/not of its atoms = {arg e 1}"
    else [])

/-! ### C09 - Lock -/

def judgeC09 (o : Obs) : Verdict :=
  let locks := (o.events.filterMap (fun e => if e.tag == "lreq" then some (arg e 0) else none)).eraseDups
  locks.flatMap (fun l =>
    let evs := (idx o).filter (fun p => (p.1.tag == "lreq" || p.1.tag == "lenter" || p.1.tag == "lexit" || p.1.tag == "avail") && arg p.1 0 == l)
    -- replay: holder and nesting depth
    let step (st : Option Int × Nat × Verdict) (p : Ev × Nat) : Option Int × Nat × Verdict :=
      let (holder, depth, v) := st
      let e := p.1
      if e.tag == "lenter" then
        match holder with
        | none => (some e.label, 1, v)
        | some h => if h == e.label then (holder, depth + 1, v)
                    else (holder, depth, v ++ [s!"lock {l}: activity {e.label} entered at {e.time} while {h} is inside"])
      else if e.tag == "lexit" then
        match holder with
        | some h => if h == e.label then (if depth ≤ 1 then (none, 0, v) else (holder, depth - 1, v)) else (holder, depth, v)
        | none => (holder, depth, v)
      else if e.tag == "avail" then
        match holder with
        | some h =>
          if h == e.label then (holder, depth, v ++ fail (arg e 1 != 1) s!"lock {l}: holder {h} sees available = False")
          else (holder, depth, v ++ fail (arg e 1 != 0) s!"lock {l}: {e.label} sees available = True while {h} is inside")
        | none => (holder, depth, v)
      else (holder, depth, v)
    let (_, _, v1) := evs.foldl step (none, 0, [])
    -- who is inside just before event number i
    let holderAt (i : Nat) : Option Int :=
      (evs.filter (·.2 < i)).foldl (fun (st : Option Int × Nat) p =>
        let e := p.1
        if e.tag == "lenter" then (match st.1 with
          | none => (some e.label, 1)
          | some h => if h == e.label then (st.1, st.2 + 1) else st)
        else if e.tag == "lexit" then (match st.1 with
          | some h => if h == e.label then (if st.2 ≤ 1 then (none, 0) else (st.1, st.2 - 1)) else st
          | none => st)
        else st) (none, 0) |>.1
    -- FIFO among contenders: requests (not re-entrant ones) that eventually enter, in request order
    let reqs := evs.filter (·.1.tag == "lreq")
    let served := reqs.filterMap (fun r =>
      if holderAt r.2 == some r.1.label then none
      else
        match evs.find? (fun q => q.2 > r.2 && q.1.label == r.1.label && (q.1.tag == "lenter" || q.1.tag == "lreq")) with
        | some q => if q.1.tag == "lenter" then some (r.2, q.2) else none
        | none => none)
    -- b asked after a while a was still waiting, and b got in before a
    let fifoBroken := served.any (fun a => served.any (fun b => a.1 < b.1 && b.1 < a.2 && b.2 < a.2))
    -- released: at quiescence, if no activity is left inside or waiting the lock is free
    let waitingOrInside :=
      (match holderAt (o.events.length + 1) with
       | some h => o.unfinished.contains h
       | none => false) ||
      reqs.any (fun r => o.unfinished.contains r.1.label &&
        !(evs.any (fun q => q.2 > r.2 && q.1.label == r.1.label && q.1.tag == "lenter")))
    let free := o.locksFree.getD l.toNat true
    v1 ++ fail fifoBroken s!"lock {l}: a later request was granted before an earlier, still waiting one" ++
    fail (o.crash == [] && !free && !waitingOrInside) s!"lock {l} is still owned at quiescence although nobody holds or waits for it")

/-! ### C10 - Queue -/

def judgeC10 (o : Obs) : Verdict :=
  let queues := (o.events.filterMap (fun e => if e.tag == "putreq" then some (arg e 0) else none)).eraseDups
  queues.flatMap (fun q =>
    let rejected := o.events.filterMap (fun e => if e.tag == "putrej" && arg e 0 == q then some (arg e 1) else none)
    let accepted := o.events.filterMap (fun e =>
      if e.tag == "putreq" && arg e 0 == q && !rejected.contains (arg e 1) then some (arg e 1) else none)
    let received := o.events.filterMap (fun e => if e.tag == "got" && accepted.contains (arg e 0) then some (arg e 0) else none)
    let dup := received.eraseDups.length != received.length
    let order := received != accepted.take received.length
    let remaining := o.queues.getD q.toNat 0
    -- StreamClosed is only raised to a receiver once every accepted item has been received
    let early := (idx o).flatMap (fun p =>
      if (p.1.tag == "caught" && arg p.1 0 == 4) || (p.1.tag == "tfin" && arg p.1 0 == 3 && arg p.1 1 == 4) then
        match ((ofLabel o p.1.label).filter (fun x => x.2 < p.2)).getLast? with
        | some (r, ri) =>
          if r.tag == "getreq" && arg r 0 == q then
            let acc := (idx o).filter (fun x => x.2 < p.2 && x.1.tag == "putreq" && arg x.1 0 == q && !rejected.contains (arg x.1 1))
            let rec_ := (idx o).filter (fun x => x.2 < p.2 && x.1.tag == "got" && accepted.contains (arg x.1 0))
            let _ := ri
            fail (acc.length > rec_.length) s!"queue {q}: receiver {p.1.label} got StreamClosed at {p.1.time} while {acc.length - rec_.length} accepted item(s) were still buffered"
          else []
        | none => []
      else [])
    -- receivers are served in the order in which they asked: of two requests that both got an item, the earlier got its
    -- item first (a request is `getreq`; it is served by the next `got` of its activity, unless it is aborted first)
    let served : List (Nat × Nat × Int) := (idx o).filterMap (fun p =>
      if p.1.tag == "getreq" && arg p.1 0 == q then
        match (ofLabel o p.1.label).find? (fun x => x.2 > p.2) with
        | some (n, ni) => if n.tag == "got" && n.args.length == 1 && accepted.contains (arg n 0) then some (p.2, ni, p.1.label) else none
        | none => none
      else none)
    let overtaken := served.flatMap (fun a => served.filterMap (fun b =>
      if a.1 < b.1 && a.2.1 > b.2.1 then some (a.2.2, b.2.2) else none))
    early ++
    fail (!overtaken.isEmpty) s!"queue {q}: a receiver that asked later was served before one that asked earlier (earlier, later): {overtaken.take 3}" ++
    fail dup s!"queue {q}: an item was received twice: {received}" ++
    fail order s!"queue {q}: items received {received} are not a prefix of the items put {accepted}" ++
    fail (o.crash == [] && (received.length : Int) + remaining != accepted.length)
      s!"queue {q}: {accepted.length} items accepted, {received.length} received, {remaining} still buffered" ++
    -- no item stays behind while a receiver keeps waiting for it: an unfinished activity whose last event is its
    -- request for an item of this queue, at the end of a run that came to rest normally
    (let waiting := o.unfinished.filter (fun l => ((ofLabel o l).getLast?).any (fun p => p.1.tag == "getreq" && arg p.1 0 == q))
     fail (o.crash == [] && remaining > 0 && !waiting.isEmpty)
       s!"queue {q}: {remaining} accepted item(s) are still buffered at the end although activity {waiting} is waiting to receive" ++
     -- "after close, items already buffered are still received and only then StreamClosed is raised": nobody is left waiting on a
     -- queue that is closed and drained when the run has come to rest
     fail (o.crash == [] && remaining == 0 && !waiting.isEmpty && o.events.any (fun c => c.tag == "qclose" && arg c 0 == q))
       s!"queue {q} was closed and is empty, but activity {waiting} still waits to receive at the end of the run (StreamClosed was never raised)"))

/-! ### C11 - Channel -/

def judgeC11 (o : Obs) : Verdict :=
  (idx o).flatMap (fun p =>
    let e := p.1
    if e.tag == "csub" && arg e 2 ≥ 0 then
      let c := arg e 0
      let sid := arg e 2
      let mine (x : Ev) := x.args.length == 3 && arg x 1 == c && arg x 2 == sid
      -- the subscription's window: until its `cend` (the channel was closed and drained), its `cleave`
      -- (the loop was left) or the end of the trace.  Subscriptions are numbered per channel, so an
      -- activity may hold several at once (an `await channel` inside an `async for` over the same channel)
      let stop := ((idx o).find? (fun q => q.2 > p.2 && (q.1.tag == "cend" || q.1.tag == "cleave") &&
        arg q.1 0 == c && arg q.1 1 == sid)).map (·.2) |>.getD o.events.length
      let rejected := o.events.filterMap (fun x => if x.tag == "cputrej" && arg x 0 == c then some (arg x 1) else none)
      let puts := (idx o).filterMap (fun q =>
        if q.2 > p.2 && q.1.tag == "cputreq" && arg q.1 0 == c && !rejected.contains (arg q.1 1) then some (arg q.1 1, q.2) else none)
      let got := (idx o).filterMap (fun q =>
        if q.2 > p.2 && q.2 < stop && q.1.tag == "got" && mine q.1 then some (arg q.1 0) else none)
      let strays := (idx o).any (fun q => (q.2 < p.2 || q.2 > stop) && q.1.tag == "got" && mine q.1)
      let expected := puts.map (·.1)
      let ended := (idx o).any (fun q => q.2 == stop && q.1.tag == "cend")
      let putsBeforeEnd := (puts.filter (fun x => x.2 < stop)).map (·.1)
      -- a single `await channel` that ends with StreamClosed although a message arrived while it waited
      let closedEarly := match (ofLabel o e.label).find? (fun q => q.2 > p.2) with
        | some (n, ni) => arg e 1 == 0 && ((n.tag == "caught" && arg n 0 == 4) || (n.tag == "tfin" && arg n 0 == 3 && arg n 1 == 4)) &&
            puts.any (fun x => x.2 < ni)
        | none => false
      -- liveness: when the run ends normally while the subscription still waits for its next message (the last
      -- thing its activity did is to subscribe / to ask for the next message), nothing that was put is outstanding
      let waitingAtEnd := o.crash == [] && stop == o.events.length &&
        (match (ofLabel o e.label).getLast? with
          | some (n, ni) => ni == p.2 || (n.tag == "cnext" && arg n 0 == c && arg n 1 == sid)
          | none => false)
      -- ... and if the channel was closed, nobody is left waiting: iteration has ended, `await channel` has raised
      let closedCh := o.events.any (fun x => x.tag == "cclose" && arg x 0 == c)
      fail (waitingAtEnd && closedCh) s!"channel {c} was closed, but subscription {sid} of consumer {e.label} still waits for its next message at the end of the run" ++
      fail (waitingAtEnd && got != expected) s!"channel {c}: subscription {sid} of consumer {e.label} still waits at the end of the run with {got} although {expected} were put" ++
      fail closedEarly s!"channel {c}: `await channel` of {e.label} raised StreamClosed although a message was put while it waited" ++
      fail strays s!"channel {c}: subscription {sid} of {e.label} received a message outside its lifetime" ++
      fail (arg e 1 == 0 && got.length > 1) s!"channel {c}: `await channel` of {e.label} returned more than once: {got}" ++
      fail (got != expected.take got.length) s!"channel {c}: subscription {sid} of consumer {e.label} got {got}, messages put after it subscribed: {expected}" ++
      fail (arg e 1 == 1 && ended && got != putsBeforeEnd) s!"channel {c}: subscription {sid} of consumer {e.label} ended after close with {got} but {putsBeforeEnd} were put"
    else [])

/-! ### C12 - Resources -/

def judgeC12 (o : Obs) : Verdict :=
  let neg := o.events.flatMap (fun e =>
    if e.tag == "levels" then fail (e.args.any (· < 0)) s!"resource level below zero at {e.time}: {e.args}" else [])
  let finalNeg := fail (o.levels.any (fun l => l.any (· < 0))) s!"final resource levels below zero: {o.levels}"
  -- claims never wait: a claim either enters in the time step of the request or fails in it
  let claims := (idx o).flatMap (fun p =>
    let e := p.1
    if e.tag == "breq" && arg e 1 == 1 then
      match (ofLabel o e.label).find? (fun q => q.2 > p.2) with
      | some (n, _) => fail (n.time != e.time) s!"claim by {e.label} at {e.time} waited until {n.time}"
      | none => []
    else [])
  neg ++ finalNeg ++ claims

/-- conservation at quiescence for declared resource `r` with initial levels `init`: only
increase/decrease (no set), every borrow block left -/
def judgeC12Conservation (o : Obs) (r : Nat) (init : List Int) : Verdict :=
  let add (a b : List Int) := (a.zip b).map (fun p => p.1 + p.2)
  let sub (a b : List Int) := (a.zip b).map (fun p => p.1 - p.2)
  -- (a change the supply refused - `resrej` is the next thing its activity does - is no change)
  let refused (p : Ev × Nat) : Bool := ((ofLabel o p.1.label).find? (fun q => q.2 > p.2)).any (fun q => q.1.tag == "resrej")
  let changed := ((idx o).filter (fun p => !refused p)).map (·.1) |>.foldl (fun acc e =>
    if e.tag == "reschange" && arg e 0 == r then
      (if arg e 1 == 0 then add acc (e.args.drop 2) else if arg e 1 == 1 then sub acc (e.args.drop 2) else acc)
    else acc) init
  let hasSet := o.events.any (fun e => e.tag == "reschange" && arg e 0 == r && arg e 1 == 2)
  -- borrow blocks on r that were requested and not left yet (per activity: a stack of blocks)
  let openStacks := (labels o).flatMap (fun l =>
    (ofLabel o l).foldl (fun (st : List Int) p =>
      if p.1.tag == "breq" then arg p.1 0 :: st
      else if p.1.tag == "bexit" then st.drop 1
      else st) [])
  let pendingReq := openStacks.contains (r : Int)
  let openBlocks : List Int := []
  let final := o.levels.getD r []
  fail (o.crash == [] && !hasSet && openBlocks.isEmpty && !pendingReq && final != changed)
    s!"resource {r}: every block was left but the available level is {final}, supply is {changed}"

/-! ### C14 - interval / delay -/

def judgeC14 (o : Obs) : Verdict :=
  fail (internalCode (o.crash.headD 0)) s!"a program of tickers ended with an internal error {o.crash} (a stale wake-up of a closed ticker?)" ++
  (idx o).flatMap (fun p =>
    let e := p.1
    if e.tag == "tbegin" then
      let isInt := arg e 0 == 1
      let period := ratArg (arg e 1) (arg e 2)
      let stop := ((ofLabel o e.label).find? (fun q => q.2 > p.2 && q.1.tag == "tbegin")).map (·.2) |>.getD o.events.length
      let mine := (ofLabel o e.label).filter (fun q => q.2 > p.2 && q.2 < stop)
      let ticks := mine.filter (·.1.tag == "tick")
      let bodyEnds := mine.filter (·.1.tag == "tbodyend")
      -- the iterator always hibernates between two iterations (and before the first): a tick in the
      -- very same turn as the end of the previous body means nobody else could run
      let noYield := (ticks.zip ((e, p.2) :: bodyEnds)).filter (fun tb => tb.1.1.time == tb.2.1.time && tb.1.1.turn == tb.2.1.turn)
      -- the iterators are endless: the loop ends only by the program's `break` after the requested number of
      -- iterations, by an exception (IntervalExceeded, ValueError for a negative period) or from outside
      let wanted := arg e 3
      let ended := mine.find? (fun q => q.1.tag == "tend")
      let rejected := (mine.head?).any (fun q => q.1.tag == "caught" && arg q.1 0 == 12)
      fail (ended.isSome && (ticks.length : Int) < wanted) s!"ticker of {e.label} (period {period}) ended by itself after {ticks.length} of {wanted} iterations" ++
      fail (period ≥ 0 && rejected) s!"ticker of {e.label}: the non-negative period {period} was rejected with ValueError" ++
      fail (period < 0 && (!ticks.isEmpty || ended.isSome)) s!"ticker of {e.label}: the negative period {period} was not rejected" ++
      fail (!noYield.isEmpty) s!"ticker of {e.label} (period {period}) resumed its body at {noYield.map (·.1.1.time)} without letting other activities run" ++
      if isInt then
        (ticks.zipIdx.flatMap (fun t => fail (t.1.1.time != e.time + period * ((t.2 + 1 : Nat) : Rat))
          s!"interval({period}) started at {e.time}: tick {t.2 + 1} at {t.1.1.time}")) ++
        -- a tick after a body run that took longer than the period must not happen
        (ticks.zip bodyEnds).flatMap (fun tb =>
          fail (tb.2.1.time - tb.1.1.time > period && ticks.any (fun t => t.2 > tb.2.2))
            s!"interval({period}): body ran from {tb.1.1.time} to {tb.2.1.time} and the iteration still continued") ++
        -- IntervalExceeded exactly then: asking for the next tick after a body run ends (the iterator does not suspend before
        -- it decides) raises IntervalExceeded if the run took longer than the period - and nothing else -, and does not otherwise
        (ticks.zip bodyEnds).flatMap (fun tb =>
          let isExc (n : Ev) := (n.tag == "caught" || n.tag == "rootexc" || (n.tag == "tfin" && arg n 0 == 3) ||
            (n.tag == "cleanup" && arg n 0 == 1))
          let code (n : Ev) := if n.tag == "caught" || n.tag == "rootexc" then arg n 0 else arg n 1
          match (ofLabel o e.label).find? (fun q => q.2 > tb.2.2) with
          | some (n, _) =>
            let over := tb.2.1.time - tb.1.1.time > period
            fail (over && n.tag != "tend" && !(isExc n && code n == 6))
              s!"interval({period}): body ran from {tb.1.1.time} to {tb.2.1.time}, longer than the period, and then {n.tag} {n.args} instead of IntervalExceeded" ++
            fail (!over && n.time == tb.2.1.time && n.turn == tb.2.1.turn && isExc n && code n == 6)
              s!"interval({period}): IntervalExceeded although the body only ran from {tb.1.1.time} to {tb.2.1.time}"
          | none => [])
      else
        let starts := e.time :: bodyEnds.map (·.1.time)
        (ticks.zip starts).flatMap (fun ts => fail (ts.1.1.time != ts.2 + period)
          s!"delay({period}): paused from {ts.2} until {ts.1.1.time}")
    else [])

/-! ### C15 - run() -/

def judgeC15 (o : Obs) (start : Rat) : Verdict :=
  -- the clock an activity sees after a nested run() is the one it saw before
  let nested := (labels o).flatMap (fun l =>
    (pairs ((ofLabel o l).filter (fun p => p.1.tag == "now" || p.1.tag == "log"))).flatMap (fun p =>
      fail (l < 10000 && p.1.1.time > p.2.1.time) s!"activity {l}: clock went from {p.1.1.time} to {p.2.1.time} (nested run disturbed the enclosing simulation)"))
  -- root activities (labels 0..) start at `start`, in argument order
  let roots := (labels o).filter (fun l => l ≥ 0 && l < 1000)
  let firsts := roots.filterMap (fun l => (ofLabel o l).head?.map (fun p => (l, p.1.time, p.2, p.1.tag)))
  let startBad := firsts.filter (fun f => f.2.2.2 == "log" && f.2.1 != start)
  let orderBad := (pairs (firsts.filter (fun f => f.2.2.2 == "log" && f.2.1 == start))).any (fun p => p.1.1 < p.2.1 && p.1.2.2.1 > p.2.2.2.1)
  -- a root activity's return value must be reported (ActivityLeak)
  let leaked := o.events.filter (fun e => e.tag == "ret" && (e.label < 1000 || e.label ≥ 10000))
  nested ++
  fail (!startBad.isEmpty) s!"root activities did not start at {start}: {startBad.map (fun f => (f.1, f.2.1))}" ++
  fail orderBad "root activities did not start in argument order" ++
  fail (o.crash == [] && !leaked.isEmpty) s!"a root activity returned {leaked.map (fun e => arg e 0)} but run() ended normally" ++
  -- the exception that escapes a root activity is re-raised by run() unchanged
  (match o.events.find? (fun e => e.tag == "rootexc" && e.label ≥ 0 && e.label < 1000) with
   | some e => fail (o.crash != e.args)
       s!"root activity {e.label} failed with {e.args} but run() {if o.crash == [] then "ended normally" else s!"raised {o.crash}"}"
   | none => []) ++
  fail (o.crash.headD 0 == 99) s!"run() ended with an unexpected internal error {o.crash}" ++
  fail o.visible "a simulation is still visible to the thread after run() returned"

/-! ### C20 - every operation yields -/

/-- scenario convention: the probed activity logs `100` right before and `101` right after the
operation; spinners (spawned or made runnable just before) log `200 + i`. -/
def judgeC20 (o : Obs) (spinners : Nat) : Verdict :=
  (match (idx o).find? (fun p => p.1.tag == "log" && arg p.1 0 == 100), (idx o).find? (fun p => p.1.tag == "log" && arg p.1 0 == 101) with
  | some (_, i), some (_, j) =>
    (List.range spinners).flatMap (fun (s : Nat) =>
      fail (!((idx o).any (fun p => p.2 > i && p.2 < j && p.1.tag == "log" && arg p.1 0 == 200 + (s : Int))))
        s!"the operation completed before runnable activity {s} got its turn")
  | _, _ => []) ++
  -- each step of interval()/delay() that passes no time (the body used up the period, period 0): scenario
  -- convention: the ticker is root activity 0, the spinners are the root activities 1..k and stay runnable
  -- throughout every time step the ticker touches
  (idx o).flatMap (fun p =>
    if p.1.tag == "tbodyend" then
      match (ofLabel o p.1.label).find? (fun q => q.2 > p.2) with
      | some (t, j) =>
        if t.tag == "tick" && t.time == p.1.time then
          (List.range spinners).flatMap (fun (s : Nat) =>
            fail (!((idx o).any (fun q => q.2 > p.2 && q.2 < j && q.1.label == 1 + (s : Int))))
              s!"a step of the ticker of activity {p.1.label} at {t.time} completed before runnable activity {s + 1} got a turn")
        else []
      | none => []
    else []) ++
  -- each step of an iteration over a queue / over first(): when two results reach the consumer (root activity 0, same
  -- convention) at the same time, every activity that stays runnable gets a turn in between
  (if (List.range spinners).all (fun (s : Nat) => o.events.any (fun e => e.label == 1 + (s : Int))) then
    (pairs ((ofLabel o 0).filter (·.1.tag == "got"))).flatMap (fun g =>
      if g.1.1.time == g.2.1.time then
        (List.range spinners).flatMap (fun (s : Nat) =>
          fail (!((idx o).any (fun q => q.2 > g.1.2 && q.2 < g.2.2 && q.1.label == 1 + (s : Int))))
            s!"the iteration of activity 0 delivered two results at {g.1.1.time} (events {g.1.2}, {g.2.2}) before runnable activity {s + 1} got a turn")
      else [])
  else []) ++
  -- giving borrowed resources back - also when the holder is thrown out of the block by a cancellation or the interrupt of an
  -- `until` - yields: between the end of the block's body (`bbody`) and the end of the block (`bexit`) every activity that
  -- stays runnable (same convention: the root activities 1..k) gets a turn
  (if (List.range spinners).all (fun (s : Nat) => o.events.any (fun e => e.label == 1 + (s : Int))) then
    (idx o).flatMap (fun p =>
      if p.1.tag == "bbody" then
        match (ofLabel o p.1.label).find? (fun q => q.2 > p.2 && q.1.tag == "bexit") with
        | some (_, j) =>
          (List.range spinners).flatMap (fun (s : Nat) =>
            fail (!((idx o).any (fun q => q.2 > p.2 && q.2 < j && q.1.label == 1 + (s : Int))))
              s!"the resources of activity {p.1.label} were given back (block left {if arg p.1 0 == 1 then "by an exception" else "normally"}) before runnable activity {s + 1} got a turn")
        | none => []
      else [])
  else [])

/-! ### C16 - collect() / first() -/

/-- per activity of a flow call: its label, its first `tfin` (index, time, code) if any, the value it
returned (`ret`, else 0 for `None`), the index of its last event -/
structure FlowAct where
  label : Int
  fin : Option (Nat × Rat × Int)
  value : Int
  started : Bool
  last : Nat

def flowActs (o : Obs) (i : Nat) (n : Nat) (base : Int) : List FlowAct :=
  (List.range n).map (fun (k : Nat) =>
    let l : Int := base + (k : Int)
    let evs := (ofLabel o l).filter (·.2 > i)
    { label := l,
      fin := (evs.find? (·.1.tag == "tfin")).map (fun p => (p.2, p.1.time, arg p.1 0)),
      value := ((evs.find? (·.1.tag == "ret")).map (fun p => arg p.1 0)).getD 0,
      started := !evs.isEmpty,
      last := (evs.getLast?.map (·.2)).getD 0 })

def ratMax (a b : Rat) : Rat := if a < b then b else a

/-- the tasks started (transitively) by the activities `roots`: `spawn` events name the new task and carry the label of
the activity that started it -/
def flowDescendants (o : Obs) (roots : List Int) : List Int :=
  let step (ls : List Int) : List Int :=
    (ls ++ o.events.filterMap (fun e => if e.tag == "spawn" && ls.contains e.label then some (arg e 1) else none)).eraseDups
  ((List.range 6).foldl (fun ls _ => step ls) roots).filter (fun l => !roots.contains l)

/-- common clauses once the call has ended at event index `E`: nothing of the activities runs afterwards -/
def flowAborted (what : String) (acts : List FlowAct) (E : Nat) (tE : Rat) (o : Obs := default) : Verdict :=
  -- ... nor anything of the tasks the activities started themselves
  (flowDescendants o (acts.map (·.label))).flatMap (fun l =>
    fail ((idx o).any (fun q => q.2 > E && q.1.label == l && q.1.tag != "tfin"))
      s!"{what}: task {l}, started by one of the activities, still runs code after the call ended at {tE}") ++
  acts.flatMap (fun x =>
    fail (x.started && x.last > E) s!"{what}: activity {x.label} still runs code after the call ended at {tE}" ++
    fail (x.started && (match x.fin with | some f => f.1 > E | none => true))
      s!"{what}: activity {x.label} was neither finished nor aborted when the call ended at {tE}")

/-- exception classes that only the library itself raises by mistake: an internal assertion, a leaked signal, a coroutine
resumed twice / that ignored its close, anything unknown (ValueError is the documented answer to a `count` that is too large) -/
def libraryError (c : Int) : Bool := c == 9 || c == 10 || c == 14 || c == 15 || c == 99

def judgeC16 (o : Obs) : Verdict :=
  -- none of the activities of a collect() / first() ends with an error of the library's own making: aborting "the rest" means
  -- closing it, whatever it holds or waits for at that moment (what the *consumer* of first() sees when an activity fails while
  -- it is suspended in its loop body is observation F14 and not judged here)
  ((idx o).flatMap (fun p =>
    let b := p.1
    if b.tag == "cbegin" || b.tag == "fbegin" then
      let n := (arg b 0).toNat
      let base := if b.tag == "cbegin" then arg b 1 else arg b 3
      (List.range n).flatMap (fun (k : Nat) =>
        let l : Int := base + (k : Int)
        match ((ofLabel o l).filter (·.2 > p.2)).find? (·.1.tag == "tfin") with
        | some (f, _) =>
          let codes : List Int := if arg f 0 == 3 then
              (match f.args.drop 1 with
               | 3 :: rest => (decodeCodes rest.length rest).map (·.headD 0)
               | c :: _ => [c]
               | [] => [])
            else []
          fail (codes.any libraryError)
            s!"activity {l} of the collect()/first() of {b.label} ended at {f.time} with an error of the library's own making: tfin {f.args}"
        | none => [])
    else [])) ++
  (idx o).flatMap (fun p =>
    let b := p.1
    let i := p.2
    let mine := (ofLabel o b.label).filter (·.2 > i)
    if b.tag == "cbegin" then
      let n := (arg b 0).toNat
      let acts := flowActs o i n (arg b 1)
      match mine.head? with
      | none => []
      | some (e, E) =>
        let what := s!"collect of activity {b.label} started at {b.time}"
        let failed := (acts.filterMap (fun x => x.fin.bind (fun f => if f.2.2 == 3 then some f else none)))
        let firstFail := failed.foldl (fun (m : Option (Nat × Rat × Int)) f => match m with
          | some g => if f.1 < g.1 then some f else some g
          | none => some f) none
        flowAborted what acts E e.time o ++
        (if e.tag == "collected" then
          let slowest := acts.foldl (fun m x => match x.fin with | some f => ratMax m f.2.1 | none => m) b.time
          fail (acts.any (fun x => match x.fin with | some f => f.2.2 != 0 | none => true))
            s!"{what}: returned although not every activity finished normally" ++
          fail (e.args != acts.map (·.value)) s!"{what}: returned {e.args}, the activities' results in argument order are {acts.map (·.value)}" ++
          fail (e.time != slowest) s!"{what}: returned at {e.time}, the slowest activity finished at {slowest}"
        else
          match firstFail with
          | some f => fail (e.time != f.2.1) s!"{what}: an activity failed at {f.2.1} but the call ended at {e.time}"
          | none => [])
    else if b.tag == "fbegin" then
      let n := (arg b 0).toNat
      let cnt := (arg b 1).toNat
      let brk := arg b 2
      let base := arg b 3
      let what := s!"first(count={cnt}) of activity {b.label} over {n} activities started at {b.time}"
      match mine.find? (fun q => q.1.tag == "fend" || q.1.tag == "fabort") with
      | none => []
      | some (e, E) =>
        let gots := mine.filter (fun q => q.2 < E && q.1.tag == "got")
        if base < 0 then
          fail (cnt ≤ n) s!"{what}: refused although count does not exceed the number of activities" ++
          fail (e.tag != "fabort" || !gots.isEmpty) s!"{what}: count exceeds the number of activities but the iteration was not refused"
        else
          let acts := flowActs o i n base
          let done := (acts.filter (fun x => match x.fin with | some f => f.2.2 == 0 | none => false)).mergeSort
            (fun x y => (x.fin.map (·.1)).getD 0 ≤ (y.fin.map (·.1)).getD 0)
          let expected := (done.take gots.length).map (·.value)
          let failed := (acts.filterMap (fun x => x.fin.bind (fun f => if f.2.2 == 3 && f.1 < E then some f else none)))
          let wanted : Nat := if brk ≥ 0 then min brk.toNat cnt else cnt
          flowAborted what acts E e.time o ++
          fail (cnt > n) s!"{what}: count exceeds the number of activities but the iteration started" ++
          fail (gots.map (fun g => arg g.1 0) != expected)
            s!"{what}: yielded {gots.map (fun g => arg g.1 0)}, the results in order of completion are {done.map (·.value)}" ++
          fail (gots.length > cnt) s!"{what}: yielded {gots.length} results" ++
          -- (an activity that fails with somebody else's TaskCancelled / TaskClosed - it awaited a task that a third party
          -- cancelled - ends the iteration without an error: the scope of first() does not count these as failures; the
          -- statement only asks that the iteration does not go on, clause below)
          let foreignCancel := failed.any (fun f => match o.events[f.1]? with
            | some ev => arg ev 1 == 1 || arg ev 1 == 2
            | none => false)
          fail (e.tag == "fend" && !foreignCancel && gots.length != wanted) s!"{what}: ended normally after {gots.length} results, expected {wanted}" ++
          ((gots.zip done).flatMap (fun gd =>
            let g := gd.1
            let ready := (((mine.filter (·.2 < g.2)).getLast?).map (·.1.time)).getD b.time
            match gd.2.fin with
            | some f =>
              fail (g.2 < f.1) s!"{what}: result of {gd.2.label} yielded before it was available" ++
              fail (g.1.time != ratMax f.2.1 ready)
                s!"{what}: result of {gd.2.label} available at {f.2.1}, consumer ready at {ready}, yielded at {g.1.time}"
            | none => [])) ++
          (match failed.head? with
           | some f =>
             -- (a failure in the very time step in which the consumer leaves the loop may go unnoticed)
             fail (e.time != f.2.1) s!"{what}: an activity failed at {f.2.1} but the iteration went on until {e.time}"
           | none => [])
    else [])

/-! ### C18 - the SimPy layer -/

structure PyInfo where
  idx : Int
  var : Int
  kind : Int               -- 0 event, 1 timeout, 2 process, 3 all_of, 4 any_of
  created : Rat
  at_ : Nat                -- position of the creation in the trace
  delay : Rat := 0
  value : Int := 0
  proc : Int := -1
  members : List Int := []
  deriving Inhabited

def pyInfos (o : Obs) : List PyInfo :=
  (idx o).filterMap (fun p =>
    let e := p.1
    if e.tag == "pynew" then
      let k := arg e 2
      some { idx := arg e 0, var := arg e 1, kind := k, created := e.time, at_ := p.2,
             delay := if k == 1 then ratArg (arg e 3) (arg e 4) else 0,
             value := if k == 1 then arg e 5 else 0,
             proc := if k == 2 then arg e 3 else -1,
             members := if k == 3 || k == 4 then e.args.drop 3 else [] }
    else none)

/-- when and how an event triggers according to the rules of the statement: `(time, position in the
trace or 0, code)` with code `[0, v]`, `[1, exception..]` or `[2]` (condition value, members checked
separately) -/
def pyOutcome (o : Obs) (infos : List PyInfo) (envStart : Rat) : Nat → Int → Option (Rat × List Int)
  | 0, _ => none
  | fuel + 1, i =>
    match infos.find? (·.idx == i) with
    | none => none
    | some inf =>
      if inf.kind == 0 then
        ((idx o).find? (fun p => p.1.tag == "pytrig" && arg p.1 0 == i)).map (fun p =>
          (p.1.time, if arg p.1 1 == 1 then [0, arg p.1 2] else 1 :: p.1.args.drop 2))
      else if inf.kind == 1 then some (ratMax inf.created envStart + inf.delay, [0, inf.value])
      else if inf.kind == 2 then
        ((idx o).find? (fun p => p.1.tag == "pyend" && p.1.label == 5000 + inf.proc)).map (fun p =>
          (p.1.time, if arg p.1 0 == 0 then [0, arg p.1 1] else p.1.args))
      else
        let outs := inf.members.map (pyOutcome o infos envStart fuel)
        let known := outs.filterMap id
        let failed := known.filter (fun t => t.2.headD 0 == 1)
        let clamp (t : Rat) : Rat := ratMax t (ratMax inf.created envStart)
        -- code `[3]`: the outcome depends on the order of activations inside one time step (see any_of below); whatever
        -- is built on such a member is not judged
        if known.any (fun t => t.2 == [3]) then some (clamp inf.created, [3])
        else if inf.members.isEmpty then some (clamp inf.created, [2])     -- `all([])`, and simpy's `any_events` of nothing
        else if inf.kind == 3 then
          -- all_of: fails with the first member failure, else fires with the last member
          match failed.foldl (fun (m : Option (Rat × List Int)) t => match m with
              | some b => if t.1 < b.1 then some t else some b
              | none => some t) none with
          | some f =>
            -- (only decided if every member that fires earlier is known)
            some (clamp f.1, f.2)
          | none =>
            if known.length == outs.length then some (clamp (known.foldl (fun m t => ratMax m t.1) inf.created), [2]) else none
        else
          -- any_of: the earliest member decides
          match known.foldl (fun (m : Option (Rat × List Int)) t => match m with
              | some b => if t.1 < b.1 then some t else some b
              | none => some t) none with
          | some f =>
            -- (several members in the earliest time step, not all of them successes: which one the condition sees
            -- first is decided by the order of activations inside the step - not judged here)
            let tied := known.filter (fun t => t.1 == f.1)
            if tied.length > 1 && tied.any (fun t => t.2.headD 0 == 1) then some (clamp f.1, [3])
            else some (clamp f.1, if f.2.headD 0 == 1 then f.2 else [2])
          | none => none

/-- position in the trace at which a plain event / a process is triggered (0: unknown) -/
def pyTriggerPos (o : Obs) (infos : List PyInfo) (i : Int) : Nat :=
  match infos.find? (·.idx == i) with
  | some inf =>
    if inf.kind == 0 then (((idx o).find? (fun p => p.1.tag == "pytrig" && arg p.1 0 == i)).map (·.2)).getD 0
    else if inf.kind == 2 then (((idx o).find? (fun p => p.1.tag == "pyend" && p.1.label == 5000 + inf.proc)).map (·.2)).getD 0
    else 0
  | none => 0

def judgeC18 (o : Obs) : Verdict :=
  let infos := pyInfos o
  -- the environment starts when it is entered, not before its initial time
  let envStart : Rat := ((o.events.find? (·.tag == "pyuntil")).map (fun e => ratMax e.time (ratArg (arg e 3) (arg e 4)))).getD 0
  let out (i : Int) := pyOutcome o infos envStart 8 i
  -- ... and ends when `until` / the `async with` block returns (or the run ends)
  let envEnd : Rat := ((o.events.find? (·.tag == "pydone")).map (·.time)).getD o.final
  let procs := infos.filter (·.kind == 2)
  -- a condition passes on the failure of one of its (nested) members
  let rec memberFailureF (fuel : Nat) (i : Int) (got : List Int) (upto : Rat) : Bool :=
    match fuel with
    | 0 => false
    | fuel + 1 =>
      match infos.find? (·.idx == i) with
      | some inf => inf.members.any (fun m =>
          (match out m with
           | some (tm, c) => c == got && tm ≤ upto
           | none => false) || memberFailureF fuel m got upto)
      | none => false
  let memberFailure (i : Int) (got : List Int) (upto : Rat) : Bool := memberFailureF 6 i got upto
  let rec leavesF (fuel : Nat) (i : Int) : List Int :=
    match fuel with
    | 0 => []
    | fuel + 1 =>
      match infos.find? (·.idx == i) with
      | some inf => if inf.kind ≥ 3 then inf.members.flatMap (leavesF fuel) else [i]
      | none => [i]
  let leaves (i : Int) : List Int := match infos.find? (·.idx == i) with
    | some inf => inf.members.flatMap (leavesF 6)
    | none => []
  -- which `Interrupt` receipts of a process are interrupts (a pending call with that cause: interrupts take
  -- precedence over the awaited event) and which are the value of a failed event; the rest is unexplained
  let classify (pr : PyInfo) : List ((Ev × Nat) × (Ev × Nat)) × List (Ev × Nat) :=
    let mine := ofLabel o (5000 + pr.proc)
    let endAt := ((mine.find? (·.1.tag == "pyend")).map (·.2)).getD (o.events.length + 1)
    let calls := (idx o).filter (fun p => p.1.tag == "pyintr" && arg p.1 0 == pr.proc && p.2 < endAt)
    let coded := mine.filter (fun r => r.1.tag == "recv" && (r.1.args.drop 1).take 2 == ([1, 16] : List Int))
    let res := coded.foldl (fun (st : Nat × List ((Ev × Nat) × (Ev × Nat)) × List (Ev × Nat)) r =>
      let valueLike : Bool := (mine.find? (fun y => y.1.tag == "pyyield" && arg y.1 0 == arg r.1 0 && y.2 < r.2)).any (fun y =>
        (match out (arg y.1 1) with
         | some (t, code) => code == r.1.args.drop 1 && r.1.time == ratMax y.1.time t && r.2 > pyTriggerPos o infos (arg y.1 1)
         | none => false) || memberFailure (arg y.1 1) (r.1.args.drop 1) r.1.time || (out (arg y.1 1)).any (fun x => x.2 == [3]))
      match calls[st.1]? with
      | some c =>
        if c.2 < r.2 && arg c.1 1 == arg r.1 3 then (st.1 + 1, st.2.1 ++ [(r, c)], st.2.2)
        else if valueLike then st else (st.1, st.2.1, st.2.2 ++ [r])
      | none => if valueLike then st else (st.1, st.2.1, st.2.2 ++ [r])) (0, [], [])
    res.2
  -- J1/J2: every wait of a process ends at max(yield time, trigger time) with the event's value
  let waits := procs.flatMap (fun pr =>
    let l := 5000 + pr.proc
    let mine := ofLabel o l
    (mine.filter (·.1.tag == "pyyield")).flatMap (fun y =>
      let step := arg y.1 0
      let target := arg y.1 1
      match mine.find? (fun r => r.1.tag == "recv" && arg r.1 0 == step && r.2 > y.2) with
      | none => []
      | some r =>
        let got := r.1.args.drop 1
        let asValue : Bool := !((classify pr).1.any (fun rc => rc.1.2 == r.2))
        if target == -2 then
          -- a native coroutine `await (time + d); return v`: same result and time as for an awaiting activity
          let d := ratArg (arg y.1 4) (arg y.1 5)
          if got.take 2 == [1, 16] then []
          else
            fail (r.1.time != y.1.time + d) s!"process {pr.proc} yielded an activity taking {d} at {y.1.time} and resumed at {r.1.time}" ++
            fail (arg y.1 3 == 0 && got != [0, arg y.1 2]) s!"process {pr.proc} received {got} from an activity that returned {arg y.1 2}" ++
            fail (arg y.1 3 == 1 && got.headD 0 != 1) s!"process {pr.proc} received {got} from an activity that failed"
        else if (got.take 2 == [1, 16] && !asValue) || target < 0 then []
        else if (infos.find? (·.idx == target)).any (fun inf => inf.kind == 3 || inf.kind == 4) && got.headD 0 == 1 &&
            memberFailure target got r.1.time then
          -- the failure of a (nested) member, passed on by the condition; which of several members that trigger in
          -- one time step decides is not fixed by the statement
          []
        else match out target with
          | none => [s!"process {pr.proc} resumed at {r.1.time} from waiting for event {target}, which never triggered"]
          | some (t, code) =>
            if code == [3] then [] else
            let isCond := (infos.find? (·.idx == target)).any (fun inf => inf.kind == 3 || inf.kind == 4)
            let tmembers : List Int := ((infos.find? (·.idx == target)).map (·.members)).getD []
            let sameTimeMembers : Bool := isCond && tmembers.any (fun m =>
              match out m with
              | some (tm, c) => tm == t && c.headD 0 == 1
              | none => false)
            fail (r.1.time != ratMax y.1.time t)
              s!"process {pr.proc} yielded event {target} at {y.1.time}; the event triggers at {t} but the process resumed at {r.1.time}" ++
            fail (!isCond && got != code)
              s!"process {pr.proc} received {got} from event {target} whose value is {code}" ++
            fail (isCond && !sameTimeMembers && !(got.headD 0 == 1 && memberFailure target got r.1.time) && got.headD 0 != code.headD 0)
              s!"process {pr.proc} received {got} from condition {target}, expected outcome kind {code}" ++
            -- exactly the members fired by then: everything strictly earlier is in, nothing later
            (if isCond && got.headD 0 == 2 then
              -- the events a (nested) condition is about: its leaves
              let ms := leaves target
              if true then
                ms.eraseDups.flatMap (fun m => match out m with
                  | some (tm, c) =>
                    fail (tm < t && c.headD 0 == 0 && !(got.drop 1).contains m) s!"condition {target} fired at {t} without exposing member {m} fired at {tm}" ++
                    fail (tm > t && (got.drop 1).contains m) s!"condition {target} fired at {t} exposing member {m} that fires only at {tm}"
                  | none => fail ((got.drop 1).contains m) s!"condition {target} exposes member {m} that never fired")
              else []
            else [])))
  -- J3: interrupts: one per yield, in call order, in the time step of the call; none for a finished process
  let intr := procs.flatMap (fun pr =>
    let l := 5000 + pr.proc
    let mine := ofLabel o l
    let endAt := ((mine.find? (·.1.tag == "pyend")).map (·.2)).getD (o.events.length + 1)
    let firstYield := ((mine.find? (·.1.tag == "pyyield")).map (·.2)).getD (o.events.length + 1)
    let calls := (idx o).filter (fun p => p.1.tag == "pyintr" && arg p.1 0 == pr.proc && p.2 < endAt)
    let (pairs, bad) := classify pr
    bad.map (fun r => s!"process {pr.proc} received Interrupt({arg r.1 3}) at {r.1.time}: no such interrupt was pending (not sent, sent to a finished process, or out of call order)") ++
    pairs.flatMap (fun rc =>
      fail (rc.2.2 > firstYield && rc.1.1.time != rc.2.1.time) s!"process {pr.proc}: interrupt sent at {rc.2.1.time} delivered at {rc.1.1.time}") ++
    -- a process that is still waiting when further interrupts are pending must get them at once
    fail (pairs.length < calls.length && endAt > o.events.length &&
          ((mine.filter (·.1.tag == "pyyield")).getLast?.map (fun y => decide (y.2 > ((calls.getD pairs.length default).2)))).getD false &&
          ((mine.filter (·.1.tag == "pyyield")).getLast?.map (fun y => decide (y.1.time < envEnd))).getD false)
      s!"process {pr.proc} kept waiting although interrupt number {pairs.length + 1} was sent to it")
  -- J4: an event is triggered at most once; callbacks run once, at the trigger
  let once := infos.flatMap (fun inf =>
    let trigs := o.events.filter (fun e => e.tag == "pytrig" && arg e 0 == inf.idx)
    let added := o.events.filter (fun e => e.tag == "addcb" && arg e 0 == inf.idx)
    let ran := o.events.filter (fun e => e.tag == "cb" && e.label == 4000 + inf.idx)
    fail (trigs.length > 1) s!"event {inf.idx} was triggered {trigs.length} times" ++
    fail (ran.length > added.length) s!"event {inf.idx}: {ran.length} callback invocations for {added.length} callbacks" ++
    fail (!(ran.all (fun r => added.any (fun a => arg a 1 == arg r 0)))) s!"event {inf.idx}: a callback ran that was never added" ++
    (match out inf.idx with
     | some (t, code) =>
       if code == [3] then [] else
       fail (ran.any (fun r => r.time != t)) s!"event {inf.idx} triggers at {t} but callbacks ran at {ran.map (·.time)}" ++
       (match o.events.find? (·.tag == "pydone") with
        | some d => fail (t < d.time && ran.length != added.length) s!"event {inf.idx} triggered at {t}: {ran.length} of {added.length} callbacks ran"
        | none =>
          -- the run did not come to its end: a failed event whose own exception ended it had its callbacks run first
          -- (they are what may defuse it)
          -- (plain events only: a condition built on the failed event fails with the same exception object, but the run
          -- is over before it is processed)
          fail (inf.kind == 0 && o.crash != [] && code.headD 0 == 1 && code.drop 1 == o.crash && ran.length != added.length)
            s!"event {inf.idx} failed at {t} and its exception ended the run, but only {ran.length} of its {added.length} callbacks ran before")
     | none => fail (!ran.isEmpty && inf.kind < 3) s!"callbacks of event {inf.idx} ran although it never triggered"))
  -- J5: env.until(..) returns exactly at the given time / when the given event triggers
  let untilC := (idx o).flatMap (fun p =>
    if p.1.tag == "pyuntil" then
      match (ofLabel o p.1.label).find? (fun d => d.2 > p.2 && d.1.tag == "pydone") with
      | none => []
      | some d =>
        if arg p.1 0 == 1 then
          let t := ratArg (arg p.1 1) (arg p.1 2)
          fail (d.1.time != t) s!"env.until({t}) returned at {d.1.time}"
        else if arg p.1 0 == 2 then
          match infos.find? (·.var == arg p.1 1) with
          | some inf => (match out inf.idx with
            | some (t, _) => fail (d.1.time != ratMax t envStart && inf.kind < 3) s!"env.until(event {inf.idx}) returned at {d.1.time}, the event triggers at {t} (environment started at {envStart})"
            | none => fail (inf.kind < 3) s!"env.until(event {inf.idx}) returned at {d.1.time} although the event never triggered")
          | none => []
        else []
    else [])
  -- no API call of a valid program raises an error of the library's own making (code 99 = an exception class the
  -- programs never raise and the statement never mentions, e.g. a RuntimeError out of `interrupt()`)
  let internal := o.events.flatMap (fun e =>
    fail (e.tag == "pyend" && arg e 0 == 1 && arg e 1 == 99) s!"process {e.label - 5000} died of an unexpected internal error at {e.time}" ++
    fail (e.tag == "recv" && arg e 1 == 1 && arg e 2 == 99) s!"process {e.label - 5000} received an unexpected internal error at {e.time}") ++
    fail (o.crash.headD 0 == 99 || (o.crash.headD 0 == 3 && (o.crash.drop 1).contains 99)) s!"the run ended with an unexpected internal error {o.crash}"
  -- J6: "a Process is an event that fires when its generator ends; every process waiting for it has its exception raised": a
  -- process that ends by raising E while another process waits for it (directly, and nobody interrupts that waiter) fails as an
  -- *event*; the waiter receives E (and thereby defuses it) before the event's callbacks could re-raise it, so E does not end the run
  let lostFailure := if o.crash == [] then [] else procs.flatMap (fun pr =>
    match (ofLabel o (5000 + pr.proc)).find? (·.1.tag == "pyend") with
    | some e =>
      -- (only if E belongs to this process alone: the exception object with which an event was failed travels - through
      -- conditions, through processes that do not catch it - and the run may end because *another* event that carries it was
      -- never defused)
      let shared := infos.any (fun inf => inf.idx != pr.idx && (match out inf.idx with
        | some (_, c) => c.drop 1 == o.crash
        | none => false))
      if arg e.1 0 == 1 && e.1.args.drop 1 == o.crash && !shared then
        procs.flatMap (fun q =>
          let mine := ofLabel o (5000 + q.proc)
          let interrupted := o.events.any (fun c => c.tag == "pyintr" && arg c 0 == q.proc)
          let waiting := mine.any (fun y => y.1.tag == "pyyield" && arg y.1 1 == pr.idx && y.2 < e.2 &&
            !(mine.any (fun r => (r.1.tag == "recv" && arg r.1 0 == arg y.1 0 && r.2 > y.2) || (r.1.tag == "pyend" && r.2 < e.2))))
          fail (q.proc != pr.proc && waiting && !interrupted)
            s!"process {pr.proc} ended at {e.1.time} by raising {o.crash} while process {q.proc} was waiting for it: the failure ended the run instead of being raised in the waiter")
      else []
    | none => [])
  waits ++ intr ++ once ++ untilC ++ internal ++ lostFailure

/-! ### C13 - pipes: the fluid model replayed over the implementation's trace -/

/-- how far a completion may be from the fluid model's (floating point rounding of the
implementation; the judge itself is exact) -/
def pipeTol (x : USim.Prim.Pipe.Xfer) : Rat := (x.total + 1) / 1000000000

structure PipeJ where
  now : Rat := 0
  active : List USim.Prim.Pipe.Xfer := []
  out : Verdict := []

/-- `tstart [pipe, hasLimit, total n/d, limit n/d]`, `tdone [pipe]`, `tabort [pipe]` -/
def judgeC13 (o : Obs) (pipes : List (Option Rat)) : Verdict :=
  let overdue (st : PipeJ) (t : Rat) : Verdict :=
    st.active.flatMap (fun x => fail (x.remaining < -(pipeTol x))
      s!"transfer of activity {x.id} (volume {x.total}, limit {x.limit}, started at {x.started}) is still running at {t} although the integral of its rate reached its volume earlier (excess {-x.remaining})")
  let step (st : PipeJ) (e : Ev) : PipeJ :=
    if e.tag != "tstart" && e.tag != "tdone" && e.tag != "tabort" then st else
    let active := USim.Prim.Pipe.advance pipes st.active (e.time - st.now)
    let st := { st with now := e.time, active := active }
    let st := { st with out := st.out ++ overdue st e.time }
    if e.tag == "tstart" then
      let p := arg e 0
      let total := ratArg (arg e 2) (arg e 3)
      let thr := (pipes[p.toNat]?).getD none
      let instant := total == 0 || (thr.isNone && arg e 1 == 0)
      let limit : Rat := if instant then 0 else if arg e 1 == 1 then ratArg (arg e 4) (arg e 5) else thr.getD 0
      { st with active := st.active ++ [{ id := e.label, pipe := p, limit := limit, remaining := if instant then 0 else total,
                                          total := total, started := e.time }] }
    else
      match st.active.find? (·.id == e.label) with
      | none => { st with out := st.out ++ [s!"activity {e.label}: {e.tag} without a transfer"] }
      | some x =>
        let st := { st with active := st.active.filter (·.id != e.label) }
        if e.tag == "tabort" && e.time == x.started && e.turn == (((idx o).find? (fun q => q.1.tag == "tstart" && q.1.label == e.label && q.1.time == x.started)).map (·.1.turn)).getD 0 then
          -- (cancellations and deadlines reach a transfer at a suspension point, i.e. in a later turn)
          { st with out := st.out ++ [s!"transfer of activity {x.id} (volume {x.total}, limit {x.limit}) was refused at once although its arguments are valid"] }
        else if e.tag == "tdone" then
          { st with out := st.out ++ (
              fail (x.remaining > pipeTol x) s!"transfer of activity {x.id} (volume {x.total}, limit {x.limit}, started at {x.started}) completed at {e.time} but only {x.total - x.remaining} of its volume fits the shared rates until then" ++
              fail (x.limit == 0 && e.time != x.started) s!"zero-volume / unlimited transfer of activity {x.id} took from {x.started} to {e.time}") }
        else st
  let st := o.events.foldl step {}
  let fin := { st with active := USim.Prim.Pipe.advance pipes st.active (o.final - st.now) }
  st.out ++ (if o.final ≥ st.now then overdue fin o.final else [])

end USim.Judge
