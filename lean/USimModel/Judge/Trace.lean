/-
Traces as the judges see them: the list of observable events of one run (of the implementation
or of the model - the format is the same), the outcome of `run()` and the final observations.
-/
namespace USim.Judge

structure Ev where
  time : Rat
  turn : Nat
  label : Int
  tag : String
  args : List Int
  deriving Inhabited, Repr

structure Obs where
  events : List Ev
  /-- `[]` = run() returned normally; otherwise the code of the exception that ended it
  (`[-1]` = out of fuel / activation bound exceeded) -/
  crash : List Int
  final : Rat
  unfinished : List Int
  locksFree : List Bool
  levels : List (List Int)
  queues : List Int
  /-- is a simulation still visible to the thread after `run()` returned? -/
  visible : Bool := false
  deriving Inhabited

def parseRat (s : String) : Rat :=
  match s.splitOn "/" with
  | [n] => ((n.toInt?.getD 0 : Int) : Rat)
  | [n, d] => mkRat (n.toInt?.getD 0) (d.toNat?.getD 1)
  | _ => 0

def parseInts (s : String) : List Int := (s.splitOn ",").filterMap String.toInt?

def parseEv (s : String) : Option Ev :=
  match s.splitOn ":" with
  | [t, turn, label, tag, args] =>
    some { time := parseRat t, turn := turn.toNat?.getD 0, label := label.toInt?.getD 0, tag := tag, args := parseInts args }
  | _ => none

/-- `events|outcome|final|unfinished|locks=../levels=../queues=..` -/
def parseObs (line : String) : Option Obs :=
  match line.splitOn "|" with
  | [tr, outcome, final, unf, obs] =>
    let events := (tr.splitOn ";").filterMap parseEv
    let crash : List Int :=
      if outcome == "ok" then []
      else if outcome.startsWith "crash " then parseInts (outcome.drop 6).toString
      else [-1]
    let fields := obs.splitOn "/"
    let get (name : String) : String :=
      (fields.findSome? (fun f => if f.startsWith (name ++ "=") then some (f.drop (name.length + 1)).toString else none)).getD ""
    some { events := events, crash := crash, final := parseRat final, unfinished := parseInts unf,
           locksFree := (parseInts (get "locks")).map (· == 1),
           levels := ((get "levels").splitOn ";").filter (· ≠ "") |>.map parseInts,
           queues := parseInts (get "queues"), visible := get "visible" == "1" }
  | _ => none

/-- rational carried in two consecutive integer arguments -/
def ratArg (n d : Int) : Rat := if d == 0 then 0 else mkRat n d.toNat

end USim.Judge
