/-!
# The fluid (processor-sharing) model of a `Pipe`

The specification the property C13 names: every active transfer progresses at
`limit × scale` where `scale = min(1, throughput / Σ limits)`.  Used by the Lean judge that
replays implementation traces, and by the theorems of `Props/C13.lean` that relate it to the
translated code of `usim/_basics/pipe.py`.
-/
namespace USim.Prim.Pipe

def sum : List Rat → Rat
  | [] => 0
  | x :: xs => x + sum xs

/-- the common factor applied to every limit -/
def scale (throughput : Rat) (limits : List Rat) : Rat :=
  if sum limits > throughput then throughput / sum limits else 1

/-- rate of a transfer with limit `l` while the transfers with `limits` are active -/
def rate (throughput : Rat) (limits : List Rat) (l : Rat) : Rat := l * scale throughput limits

/-- an active transfer of the fluid model -/
structure Xfer where
  id : Int
  pipe : Int
  limit : Rat
  remaining : Rat
  total : Rat := 0
  started : Rat := 0
  deriving Repr, Inhabited

/-- `none` = infinite throughput -/
def scaleOpt (throughput : Option Rat) (limits : List Rat) : Rat :=
  match throughput with
  | some t => scale t limits
  | none => 1

/-- let `dt` time units pass: every transfer of pipe `p` moves `rate × dt` -/
def advance (pipes : List (Option Rat)) (xs : List Xfer) (dt : Rat) : List Xfer :=
  xs.map (fun x =>
    let limits := (xs.filter (·.pipe == x.pipe)).map (·.limit)
    let sc := scaleOpt ((pipes[x.pipe.toNat]?).getD none) limits
    { x with remaining := x.remaining - x.limit * sc * dt })

end USim.Prim.Pipe
