import USimModel.Machine.Kernel
/-
Layer K: the event loop for *arbitrary* activity behaviour (`usim/_core/loop.py`, `waitq.py`).

The kernel state is the clock, the deque of the current time step and the time-ordered wait
queue; the functions are the ones the executable machine uses (`pushBucket`, the selection logic
of `Loop._run_events`).  What an activity does when it runs is abstracted into the list of
`schedule` commands it issues (`Cmd`) - the theorems hold for every such behaviour, as long as
`schedule`'s assertion (date in the future) is respected.
-/
namespace USim.Prim.Kernel
open USim.Machine

structure K where
  time : Rat
  pending : List Activation := []
  queue : List (Rat × List Activation) := []
  deriving Inhabited

/-- one `Loop.schedule` call: for the current time step, or for the strictly later date `key` -/
inductive Cmd where
  | now (a : Activation)
  | later (key : Rat) (a : Activation)

def K.apply (k : K) : Cmd → K
  | .now a => { k with pending := k.pending ++ [a] }
  | .later key a => { k with queue := pushBucket key a k.queue }

/-- the assertion of `Loop.schedule`: `delay > 0` / `at > self.time` -/
def Cmd.ok (k : K) : Cmd → Prop
  | .now _ => True
  | .later key _ => k.time < key

inductive Next where
  /-- run this activation now -/
  | run (a : Activation) (k : K)
  /-- the time step is drained: the clock moves to the next bucket -/
  | advance (k : K)
  /-- nothing left: `run()` returns -/
  | quiescent

/-- `Loop._run_events`: one iteration of the inner or outer loop -/
def K.next (k : K) : Next :=
  match k.pending with
  | a :: rest => .run a { k with pending := rest }
  | [] =>
    match k.queue with
    | (t, bucket) :: q => .advance { time := t, pending := bucket, queue := q }
    | [] => .quiescent

def keys (q : List (Rat × List Activation)) : List Rat := q.map (·.1)

/-- wait-queue invariant: keys strictly increasing and all in the future -/
def QueueOk (k : K) : Prop := (keys k.queue).Pairwise (· < ·) ∧ ∀ t ∈ keys k.queue, k.time < t

/-! ### HQ backend: a heap of keys plus a dict of buckets (`HQWaitQueue`) -/

structure HQ where
  /-- the keys in the heap, in no particular order (`heapq` is used only through push / pop-min) -/
  keys : List Rat := []
  data : List (Rat × List Activation) := []

def HQ.push (h : HQ) (key : Rat) (a : Activation) : HQ :=
  if h.data.any (·.1 == key) then
    { h with data := h.data.map (fun p => if p.1 == key then (p.1, p.2 ++ [a]) else p) }
  else { keys := key :: h.keys, data := h.data ++ [(key, [a])] }

/-- minimum of a non-empty list -/
def minKey : List Rat → Option Rat
  | [] => none
  | x :: xs => match minKey xs with
    | none => some x
    | some m => some (if x ≤ m then x else m)

def HQ.pop (h : HQ) : Option ((Rat × List Activation) × HQ) :=
  match minKey h.keys with
  | none => none
  | some m =>
    some ((m, ((h.data.find? (·.1 == m)).map (·.2)).getD []),
          { keys := h.keys.erase m, data := h.data.filter (fun p => !(p.1 == m)) })

end USim.Prim.Kernel
