/-
Open model of `usim/_primitives/locks.py` (property C09): the lock as a state machine whose
actions are the code's entry points *and the environment's moves*:

* `enter a`  - activity `a` executes `Lock.__aenter__` up to its first suspension (or completes it)
* `resume a` - the wake-up of the designated waiter `a` is delivered: `__aenter__` completes
* `abort a`  - an exception (cancel, until-interrupt, GeneratorExit, anything) is thrown into `a`
               while it waits in `__aenter__`: unsubscribe (`finally`) + the `except` clause
* `exit a`   - `Lock.__aexit__` (normal or exceptional exit of the block)

The theorems hold for *every* sequence of these actions by any number of activities - hence for
every schedule and every fault injected at any suspension point.
-/
namespace USim.Prim.Lock

structure LockSt where
  owner : Option Nat := none
  depth : Nat := 0
  /-- `_notification._waiting`: subscribed waiters, oldest first -/
  waiting : List Nat := []
  /-- waiters whose wake-up has been scheduled and not yet delivered -/
  woken : List Nat := []
  deriving Repr, DecidableEq

inductive Act where
  | enter (a : Nat) | resume (a : Nat) | abort (a : Nat) | exit (a : Nat)
  deriving Repr, DecidableEq

/-- `Lock.__release__` (locks.py:80-86) -/
def release (s : LockSt) : LockSt :=
  match s.waiting with
  | [] => { s with owner := none }
  | b :: rest => { s with owner := some b, waiting := rest, woken := s.woken ++ [b] }

/-- is the action possible in this state (an activity waits at most once, only the owner exits, ...) -/
def enabled (s : LockSt) : Act → Bool
  | .enter a => !(s.waiting.contains a) && !(s.woken.contains a)
  | .resume a => s.woken.contains a
  | .abort a => s.waiting.contains a || s.woken.contains a
  | .exit a => s.owner == some a && s.depth > 0

/-- the transition of an *enabled* action -/
def apply (s : LockSt) : Act → LockSt
  | .enter a =>
    match s.owner with
    | none => { s with owner := some a, depth := s.depth + 1 }
    | some o => if o == a then { s with depth := s.depth + 1 } else { s with waiting := s.waiting ++ [a] }
  | .resume a => { s with woken := s.woken.erase a, depth := s.depth + 1 }
  | .abort a =>
    if s.waiting.contains a then { s with waiting := s.waiting.erase a }      -- `__unsubscribe__`: still in the list
    else
      -- the wake-up was scheduled: it is revoked; `except: if self._owner == current: __release__()`
      let s := { s with woken := s.woken.erase a }
      if s.owner == some a then release s else s
  | .exit a =>
    let s := { s with depth := s.depth - 1 }
    if s.depth == 0 then release s else s

def step (s : LockSt) (act : Act) : LockSt := if enabled s act then apply s act else s

def run (s : LockSt) (acts : List Act) : LockSt := acts.foldl step s

/-- `Lock.available` for activity `a` (locks.py:33-56) -/
def available (s : LockSt) (a : Nat) : Bool :=
  match s.owner with
  | none => true
  | some o => o == a

/-- the activities inside the block: the owner, if its nesting depth is positive -/
def inside (s : LockSt) (a : Nat) : Bool := s.owner == some a && s.depth > 0

structure Inv (s : LockSt) : Prop where
  /-- nobody is inside a free lock, nobody waits for it -/
  free : s.owner = none → s.depth = 0 ∧ s.waiting = [] ∧ s.woken = []
  /-- at most the designated owner has a wake-up in flight, and then nobody is inside yet -/
  woken : s.woken = [] ∨ (∃ b, s.woken = [b] ∧ s.owner = some b ∧ s.depth = 0)
  /-- an owned lock with nobody inside has its designated owner on the way -/
  designated : ∀ b, s.owner = some b → s.depth = 0 → s.woken = [b]
  /-- the owner does not wait for its own lock -/
  ownerNotWaiting : ∀ b, s.owner = some b → ¬ b ∈ s.waiting
  nodup : s.waiting.Nodup

end USim.Prim.Lock
