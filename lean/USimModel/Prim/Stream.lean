/-
Open models of `usim/_basics/streams.py`: `Queue` (property C10) and `Channel` (property C11).

The actions are the *atomic synchronous segments* of the code (between two suspension points)
plus the environment's moves; the theorems hold for every sequence of them.
-/
namespace USim.Prim.Stream

/-! ### Queue -/

structure QSt where
  buffer : List Int := []
  closed : Bool := false
  /-- history: items accepted by `put`, items handed to receivers - in order -/
  accepted : List Int := []
  received : List Int := []
  /-- `put` calls that raised StreamClosed -/
  rejected : List Int := []
  deriving Repr, DecidableEq

inductive QAct where
  /-- `Queue.put(x)` up to its trailing postpone (streams.py:178-192) -/
  | put (x : Int)
  /-- a receiver (holding the read mutex) completes: `return self._buffer.popleft()`; with an empty
  buffer this is the `StreamClosed` exit -/
  | pop
  /-- `Queue.close()` -/
  | close
  /-- anything else: a receiver or producer is cancelled / interrupted / closed at one of its
  suspension points (waiting for the mutex, designated, waiting for an item, woken, postponing on a
  buffered item, in the trailing postpone of `put`), the mutex is handed over, ... - none of
  these touches the buffer -/
  | other
  deriving Repr, DecidableEq

def qstep (s : QSt) : QAct → QSt
  | .put x => if s.closed then { s with rejected := s.rejected ++ [x] }
              else { s with buffer := s.buffer ++ [x], accepted := s.accepted ++ [x] }
  | .pop => match s.buffer with
    | [] => s
    | x :: rest => { s with buffer := rest, received := s.received ++ [x] }
  | .close => { s with closed := true }
  | .other => s

def qrun (s : QSt) (acts : List QAct) : QSt := acts.foldl qstep s

/-! ### Channel -/

structure Consumer where
  key : Nat
  buffer : List Int := []
  /-- messages put since this consumer registered / messages handed to it -/
  since : List Int := []
  delivered : List Int := []
  deriving Repr, DecidableEq

structure CSt where
  consumers : List Consumer := []
  closed : Bool := false
  nextKey : Nat := 0
  deriving Repr, DecidableEq

inductive CAct where
  /-- a consumer registers its buffer (`__aiter__` / `__await__` before their first suspension) -/
  | subscribe
  /-- `Channel.put(x)`: append to every registered buffer, wake everybody -/
  | put (x : Int)
  /-- consumer `k` takes the next message of its buffer (`yield buffer.popleft()` / `return buffer[0]`) -/
  | deliver (k : Nat)
  /-- consumer `k` leaves by any route (`finally: del self._consumer_buffers[sentinel]`) -/
  | leave (k : Nat)
  | close
  deriving Repr, DecidableEq

def cstep (s : CSt) : CAct → CSt
  | .subscribe => { s with consumers := s.consumers ++ [{ key := s.nextKey }], nextKey := s.nextKey + 1 }
  | .put x => if s.closed then s
              else { s with consumers := s.consumers.map (fun c => { c with buffer := c.buffer ++ [x], since := c.since ++ [x] }) }
  | .deliver k => { s with consumers := s.consumers.map (fun c =>
      if c.key == k then (match c.buffer with
        | [] => c
        | x :: rest => { c with buffer := rest, delivered := c.delivered ++ [x] }) else c) }
  | .leave k => { s with consumers := s.consumers.filter (fun c => c.key != k) }
  | .close => { s with closed := true }

def crun (s : CSt) (acts : List CAct) : CSt := acts.foldl cstep s

end USim.Prim.Stream
