/-
Open model of `usim/_basics/resource.py` (property C12).

A supply has an available level vector (one component per named resource).  Every borrow block
goes through the phases of `BorrowedResources.__aenter__/__aexit__`; each action is one
synchronous segment of the code (between two suspension points) or a move of the environment.
-/
namespace USim.Prim.Resources

abbrev Vec := List Int

def vadd (a b : Vec) : Vec := (a.zip b).map (fun p => p.1 + p.2)
def vsub (a b : Vec) : Vec := (a.zip b).map (fun p => p.1 - p.2)
/-- `levels_a >= levels_b` of `_resource_level.py`: every component -/
def vge (a b : Vec) : Bool := (a.zip b).all (fun p => p.1 ≥ p.2)
def nonneg (a : Vec) : Prop := ∀ x ∈ a, 0 ≤ x

inductive Phase where
  | waiting      -- in `await (available >= debits)` or not yet tested
  | removed      -- after `__remove_resources__` (supply debited), in its postponement
  | held         -- after `__insert_resources__`: the body runs
  | returning    -- `__aexit__` after its first step (own share emptied), in its postponement
  | done         -- resources returned
  | aborted (holding : Bool)   -- left by an exception; `holding` = the supply is still debited
  deriving Repr, DecidableEq

structure Block where
  debits : Vec
  phase : Phase := .waiting
  deriving Repr, DecidableEq

structure RSt where
  avail : Vec
  /-- what the supply owns in total (changed only by increase / decrease) -/
  supply : Vec
  blocks : List Block := []
  deriving Repr, DecidableEq

inductive Act where
  | request (debits : Vec)                 -- `resources.borrow(..)` / `.claim(..)` creates a block
  | acquire (i : Nat)                      -- availability test + `__remove_resources__` in ONE step
  | claimFail (i : Nat)                    -- `claim`: not available on entry -> ResourcesUnavailable
  | inserted (i : Nat)                     -- `__insert_resources__` done: body starts
  | release1 (i : Nat)                     -- first step of `__aexit__`
  | release2 (i : Nat)                     -- second step: supply credited
  | abort (i : Nat)                        -- an exception hits the block at its current suspension point
  | increase (d : Vec) | decrease (d : Vec)
  deriving Repr, DecidableEq

def setPhase (s : RSt) (i : Nat) (p : Phase) : RSt :=
  { s with blocks := s.blocks.modify i (fun b => { b with phase := p }) }

def phaseOf (s : RSt) (i : Nat) : Option Phase := (s.blocks[i]?).map (·.phase)
def debitsOf (s : RSt) (i : Nat) : Vec := ((s.blocks[i]?).map (·.debits)).getD []

def step (s : RSt) : Act → RSt
  | .request d => { s with blocks := s.blocks ++ [{ debits := d }] }
  | .acquire i =>
    if phaseOf s i = some .waiting && vge s.avail (debitsOf s i) then
      setPhase { s with avail := vsub s.avail (debitsOf s i) } i .removed
    else s
  | .claimFail i =>
    if phaseOf s i = some .waiting && !vge s.avail (debitsOf s i) then setPhase s i (.aborted false) else s
  | .inserted i => if phaseOf s i = some .removed then setPhase s i .held else s
  | .release1 i => if phaseOf s i = some .held then setPhase s i .returning else s
  | .release2 i =>
    if phaseOf s i = some .returning then setPhase { s with avail := vadd s.avail (debitsOf s i) } i .done else s
  | .abort i =>
    match phaseOf s i with
    | some .waiting => setPhase s i (.aborted false)
    | some .removed => setPhase s i (.aborted true)          -- F4: nothing gives the debits back
    | some .returning => setPhase s i (.aborted true)        -- F4
    | some .held =>
      -- an exception in the *body* runs `__aexit__`: both release steps follow (modelled as the
      -- ordinary release1/release2 actions); an abort in phase `held` is therefore a no-op here
      s
    | _ => s
  | .increase d => { s with avail := vadd s.avail d, supply := vadd s.supply d }
  | .decrease d => if vge s.avail d then { s with avail := vsub s.avail d, supply := vsub s.supply d } else s

def run (s : RSt) (acts : List Act) : RSt := acts.foldl step s

/-- blocks that currently keep the supply debited -/
def debiting (b : Block) : Bool :=
  match b.phase with
  | .removed | .held | .returning | .aborted true => true
  | _ => false

def sumDebits (n : Nat) (bs : List Block) : Vec :=
  bs.foldl (fun acc b => if debiting b then vadd acc b.debits else acc) (List.replicate n 0)

end USim.Prim.Resources

/-! ### one component of the supply (conservation is componentwise; only the availability *guard*
couples the components, and it only matters for non-negativity) -/
namespace USim.Prim.Resources.Scalar

structure Block where
  debit : Int
  phase : Phase := .waiting
  deriving Repr, DecidableEq

structure SSt where
  avail : Int
  supply : Int
  blocks : List Block := []
  deriving Repr, DecidableEq

inductive Act where
  | request (d : Int)
  /-- `guard` = the result of the (vector) availability test -/
  | acquire (i : Nat) (guard : Bool)
  | inserted (i : Nat) | release1 (i : Nat) | release2 (i : Nat) | abort (i : Nat)
  | increase (d : Int) | decrease (d : Int)
  deriving Repr, DecidableEq

/-- does a block in this phase keep the supply debited? -/
def deb : Phase → Bool
  | .removed | .held | .returning | .aborted true => true
  | _ => false

def debiting (b : Block) : Bool := deb b.phase

def owed : List Block → Int
  | [] => 0
  | b :: bs => (if debiting b then b.debit else 0) + owed bs

/-- debits lost for ever: blocks aborted while the supply was debited (finding F4) -/
def leaked : List Block → Int
  | [] => 0
  | b :: bs => (if b.phase = .aborted true then b.debit else 0) + leaked bs

def setPhaseL : List Block → Nat → Phase → List Block
  | [], _, _ => []
  | b :: bs, 0, p => { b with phase := p } :: bs
  | b :: bs, i+1, p => b :: setPhaseL bs i p

def phaseOfL : List Block → Nat → Option Phase
  | [], _ => none
  | b :: _, 0 => some b.phase
  | _ :: bs, i+1 => phaseOfL bs i

def debitOfL : List Block → Nat → Int
  | [], _ => 0
  | b :: _, 0 => b.debit
  | _ :: bs, i+1 => debitOfL bs i

def step (s : SSt) : Act → SSt
  | .request d => { s with blocks := s.blocks ++ [{ debit := d }] }
  | .acquire i guard =>
    if phaseOfL s.blocks i = some .waiting && guard then
      { s with avail := s.avail - debitOfL s.blocks i, blocks := setPhaseL s.blocks i .removed }
    else s
  | .inserted i => if phaseOfL s.blocks i = some .removed then { s with blocks := setPhaseL s.blocks i .held } else s
  | .release1 i => if phaseOfL s.blocks i = some .held then { s with blocks := setPhaseL s.blocks i .returning } else s
  | .release2 i =>
    if phaseOfL s.blocks i = some .returning then
      { s with avail := s.avail + debitOfL s.blocks i, blocks := setPhaseL s.blocks i .done }
    else s
  | .abort i =>
    match phaseOfL s.blocks i with
    | some .waiting => { s with blocks := setPhaseL s.blocks i (.aborted false) }
    | some .removed => { s with blocks := setPhaseL s.blocks i (.aborted true) }
    | some .returning => { s with blocks := setPhaseL s.blocks i (.aborted true) }
    | _ => s
  | .increase d => { s with avail := s.avail + d, supply := s.supply + d }
  | .decrease d => { s with avail := s.avail - d, supply := s.supply - d }

def run (s : SSt) (acts : List Act) : SSt := acts.foldl step s

end USim.Prim.Resources.Scalar
