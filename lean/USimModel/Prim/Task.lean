/-
Open model of a task's lifecycle (`usim/_primitives/task.py`, property C06): the state a `Task`
carries and the actions that touch it, for every order in which they may happen.
-/
namespace USim.Prim.Task

inductive Runner where
  | created | running | finished
  deriving Repr, DecidableEq

inductive Result where
  | value (v : Int) | failed (exn : Nat) | cancelled (token : Int) | closed
  deriving Repr, DecidableEq

structure TaskSt where
  runner : Runner := .created
  result : Option Result := none
  done : Bool := false
  /-- did any statement of the payload execute? -/
  payloadRan : Bool := false
  /-- `CancelTask` signals scheduled and not yet delivered / revoked -/
  pendingCancels : List Int := []
  /-- inside `Task.__close__` of a started task: `_result` already holds the closure, `__runner__.close()` is running the
  payload's clean-up (`finally` / `except` blocks) and has not come back yet -/
  closing : Bool := false
  deriving Repr, DecidableEq

inductive Act where
  | start                       -- first activation of `payload_wrapper`
  | finishValue (v : Int)       -- payload returned (wrapper: `else: self._result = result, None`)
  | finishError (e : Nat)       -- payload raised (wrapper: `except BaseException as err: self._result = None, err`)
  | cancel (token : Int)        -- `Task.cancel(token)`
  | deliverCancel               -- the oldest pending CancelTask is thrown into the payload and leaves it again
  | swallowCancel               -- the oldest pending CancelTask is thrown into the payload, which catches it and goes on
  | close                       -- `Task.__close__` (scope end): stores the closure; a started task begins its clean-up
  | cleanupDone                 -- the GeneratorExit of `__runner__.close()` left the payload (wrapper: `except GeneratorExit`)
  deriving Repr, DecidableEq

/-- tail of the wrapper: revoke pending cancellations, `_done.__set_done__()` -/
def finalize (s : TaskSt) : TaskSt := { s with runner := .finished, done := true, pendingCancels := [], closing := false }

def step (s : TaskSt) : Act → TaskSt
  | .start =>
    if s.runner ≠ .created then s
    else if s.result.isSome then { s with runner := .finished }        -- pre-run cancel / close: payload closed unrun
    else { s with runner := .running, payloadRan := true }
  | .finishValue v =>
    -- (the wrapper does not look at `_result`: a payload that ends by itself *while it is being closed* overwrites the closure)
    if s.runner = .running ∧ (s.result.isNone ∨ s.closing) then finalize { s with result := some (.value v) } else s
  | .finishError e =>
    if s.runner = .running ∧ (s.result.isNone ∨ s.closing) then finalize { s with result := some (.failed e) } else s
  | .cancel tok =>
    if s.result.isSome then s
    else if s.runner = .created then { s with result := some (.cancelled tok), done := true }
    else { s with pendingCancels := s.pendingCancels ++ [tok] }
  | .deliverCancel =>
    match s.pendingCancels with
    | [] => s
    | tok :: rest =>
      if s.runner = .running ∧ s.result.isNone then finalize { s with result := some (.cancelled tok) }
      else { s with pendingCancels := rest }
  | .swallowCancel =>
    match s.pendingCancels with
    | [] => s
    | _ :: rest => { s with pendingCancels := rest }
  | .close =>
    if s.result.isSome then s
    else if s.runner = .created then { s with result := some .closed, done := true }
    else { s with result := some .closed, closing := true }
  | .cleanupDone =>
    if s.closing then finalize s else s

def run (s : TaskSt) (acts : List Act) : TaskSt := acts.foldl step s

/-- `Task.status` as a rank: created 0 < running 1 < finished states 2 -/
def rank (s : TaskSt) : Nat :=
  match s.result with
  | some _ => 2
  | none => if s.runner = .created then 0 else 1

end USim.Prim.Task
