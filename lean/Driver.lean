import USimModel.Drv.Util
import USimModel.Drv.C17
import USimModel.Drv.C19
import USimModel.Drv.Machine
import USimModel.Drv.Judge
/-!
Line-protocol driver: one request per line on stdin, one reply per line on stdout.
`<suite> <command> <args...>`; every suite keeps its own state.  Used by the Python harness
to run the *model* (and the Lean judges) on exactly the inputs the implementation was run on.
-/
open USim.Drv

structure DrvState where
  c17 : C17.St := {}
  c19 : C19.St := {}

def step (st : DrvState) (line : String) : DrvState × String :=
  if line.startsWith "mach " then (st, Mach.handle (line.drop 5).toString) else
  if line.startsWith "judge " then (st, JudgeCmd.run (line.drop 6).toString) else
  match tokens line with
  | "c17" :: rest => let (s, out) := C17.handle st.c17 rest; ({ st with c17 := s }, out)
  | "c19" :: rest => let (s, out) := C19.handle st.c19 rest; ({ st with c19 := s }, out)
  | "ping" :: _ => (st, "pong")
  | _ => (st, "bad-suite")

partial def loop (h : IO.FS.Stream) (out : IO.FS.Stream) (st : DrvState) : IO Unit := do
  let line ← h.getLine
  if line.isEmpty then return ()
  let (st', reply) := step st line.trimAscii.toString
  out.putStrLn reply
  out.flush
  loop h out st'

def main : IO Unit := do
  let out ← IO.getStdout
  loop (← IO.getStdin) out {}
