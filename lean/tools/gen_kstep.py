#!/usr/bin/env python3
"""Regenerate USimModel/Lemmas/KStepFrames.lean: one lemma per constructor of `Frame` for `stepRet` and `stepRaise`
(each a declaration of its own, so that elaboration stays cheap), and the two case analyses that collect them.
usage: python3 tools/gen_kstep.py   (from /verif/lean; run again whenever `Frame` gets a new constructor)"""
import os
import re

HERE = os.path.dirname(os.path.abspath(__file__))
ROOT = os.path.dirname(HERE)
src = open(os.path.join(ROOT, 'USimModel/Machine/Types.lean')).read()
i = src.index('inductive Frame')
j = src.index('deriving Inhabited', i)
body = re.sub(r'/--.*?-/', '', src[i:j], flags=re.S)
lines = []
for ln in body.splitlines()[1:]:
    t = ln.strip()
    if t.startswith('|'):
        lines.append(t.split('--')[0].strip())
    elif t.startswith('(') and lines:
        lines[-1] += ' ' + t.split('--')[0].strip()
ctors = []
for ln in lines:
    m = re.match(r'\|\s*(\w+)\s*(.*)$', ln)
    ctors.append((m.group(1), m.group(2).strip()))

#: proved by hand in KStep.lean (local recursion / folds over pairs / the statement interpreter)
BY_HAND = {'stepRet': {'seq', 'connStart'}, 'stepRaise': {'connHib'}}
#: the same for the pending view (PStep.lean)
BY_HAND_P = {'stepRet': {'seq', 'connStart', 'connHib'}, 'stepRaise': {'connHib'}}
#: the same for the trace view (TStep.lean)
#: the same for the object view (OStep.lean)
BY_HAND_O = {'stepRet': {'seq', 'connStart', 'connHib', 'firstMonitor'}, 'stepRaise': {'connHib'}}
#: the same for the structure view (CStep.lean)
BY_HAND_C = {'stepRet': {'seq', 'connStart', 'connHib', 'lockBody'}, 'stepRaise': {'connHib', 'lockBody'}}
BY_HAND_T = {'stepRet': {'seq', 'connStart', 'lockBody'}, 'stepRaise': {'connHib', 'lockBody'}}


def names_of(binders):
    out = []
    for grp in re.findall(r'\(([^:()]+):', binders):
        out += grp.split()
    return out


def lemmas(fn, xb, xa, view='k'):
    out = []
    for name, args in ctors:
        if name in {'k': BY_HAND, 't': BY_HAND_T, 'p': BY_HAND_P, 's': BY_HAND_P, 'q': BY_HAND_P, 'o': BY_HAND_O, 'c': BY_HAND_C}[view][fn]:
            continue
        # (binder groups such as `(total thr : τ)`: prefix every name, so that none clashes with `a`, `fs`, `v`, `e`)
        binders = re.sub(r'\(([^:()]+):', lambda m: '(' + ' '.join('x_' + n for n in m.group(1).split()) + ' :', args.replace('τ', 'Rat'))
        app = ' '.join(['.' + name] + names_of(binders))
        if view == 'k':
            out.append('theorem %s_%s {k0 : KV} (a : ActId) (fs : List (Frame Rat)) %s %s (h0 : KExt k0 w.kv) :\n'
                       '    KExt k0 (w.%s a (%s) fs %s).kv := by\n  simp only [%s]; kx h0\n' % (fn, name, xb, binders, fn, app, xa, fn))
        elif view == 't':
            out.append('theorem %sT_%s {t0 : TV} (a : ActId) (fs : List (Frame Rat)) %s %s (h0 : TExt t0 w.tv) :\n'
                       '    TExt t0 (w.%s a (%s) fs %s).tv := by\n  simp only [%s]; tx h0\n' % (fn, name, xb, binders, fn, app, xa, fn))
        elif view == 'q':
            out.append('theorem %sQ_%s {t0 : Array Task} {a0 : Array (Activity Rat)} (a : ActId) (fs : List (Frame Rat)) %s %s (h0 : QExt t0 a0 w.tasks w.acts) :\n'
                       '    QExt t0 a0 (w.%s a (%s) fs %s).tasks (w.%s a (%s) fs %s).acts := by\n  simp only [%s]; qx h0\n' % (fn, name, xb, binders, fn, app, xa, fn, app, xa, fn))
        elif view == 'c':
            out.append('theorem %sC_%s {o0 : CV} (a : ActId) (fs : List (Frame Rat)) %s %s (h0 : CX(o0, w)) :\n'
                       '    CX(o0, (w.%s a (%s) fs %s)) := by\n  simp only [%s]; cx h0\n' % (fn, name, xb, binders, fn, app, xa, fn))
        elif view == 'o':
            out.append('theorem %sO_%s {o0 : OV} (a : ActId) (fs : List (Frame Rat)) %s %s (h0 : OX(o0, w)) :\n'
                       '    OX(o0, (w.%s a (%s) fs %s)) := by\n  simp only [%s]; ox h0\n' % (fn, name, xb, binders, fn, app, xa, fn))
        elif view == 's':
            out.append('theorem %sS_%s {s0 : Array Sig} (a : ActId) (fs : List (Frame Rat)) %s %s (h0 : SExt s0 w.sigs) :\n'
                       '    SExt s0 (w.%s a (%s) fs %s).sigs := by\n  simp only [%s]; sx h0\n' % (fn, name, xb, binders, fn, app, xa, fn))
        else:
            out.append('theorem %sP_%s {p0 : List Activation} (a : ActId) (fs : List (Frame Rat)) %s %s (h0 : PExt p0 w.pending) :\n'
                       '    PExt p0 (w.%s a (%s) fs %s).pending := by\n  simp only [%s]; px h0\n' % (fn, name, xb, binders, fn, app, xa, fn))
    return out


def cases(fn, xa, view='k'):
    out = []
    for name, args in ctors:
        if name in {'k': BY_HAND, 't': BY_HAND_T, 'p': BY_HAND_P, 's': BY_HAND_P, 'q': BY_HAND_P, 'o': BY_HAND_O, 'c': BY_HAND_C}[view][fn]:
            continue
        ns = ['x%d' % k for k, _ in enumerate(names_of(args))]
        out.append('  | %s %s => exact %s%s_%s w a fs %s %s h0' % (name, ' '.join(ns), fn, {'k': '', 't': 'T', 'p': 'P', 's': 'S', 'q': 'Q', 'o': 'O', 'c': 'C'}[view], name, xa, ' '.join(ns)))
    return out


text = '''import USimModel.Lemmas.KView
/-!
# Frame by frame: what delivering a value / an exception to a frame does to the kernel view

GENERATED by `tools/gen_kstep.py` from the constructors of `Frame` - do not edit.  One lemma per constructor
keeps every elaboration small; `Lemmas/KStep.lean` adds the few frames that need an induction and collects them.
-/
set_option linter.unusedVariables false
set_option linter.unusedSimpArgs false
namespace USim.Machine
open TimeLike USim.Prim.Kernel
namespace World
variable (w : World Rat)

/-! ### stepRet -/
%s
/-! ### stepRaise -/
%s
end World
end USim.Machine
''' % ('\n'.join(lemmas('stepRet', '(v : Val)', 'v')), '\n'.join(lemmas('stepRaise', '(e : ExnId)', 'e')))
open(os.path.join(ROOT, 'USimModel/Lemmas/KStepFrames.lean'), 'w').write(text)
open(os.path.join(ROOT, 'USimModel/Lemmas/KStepCases.txt'), 'w').write(
    '-- stepRet\n' + '\n'.join(cases('stepRet', 'v')) + '\n-- stepRaise\n' + '\n'.join(cases('stepRaise', 'e')) + '\n')
ttext = '''import USimModel.Lemmas.TView
/-!
# Frame by frame: what delivering a value / an exception to a frame does to clock and trace

GENERATED by `tools/gen_kstep.py` from the constructors of `Frame` - do not edit (see `KStepFrames.lean`).
-/
set_option linter.unusedVariables false
set_option linter.unusedSimpArgs false
namespace USim.Machine
open TimeLike USim.Prim.Kernel
namespace World
variable (w : World Rat)

/-! ### stepRet -/
%s
/-! ### stepRaise -/
%s
end World
end USim.Machine
''' % ('\n'.join(lemmas('stepRet', '(v : Val)', 'v', 't')), '\n'.join(lemmas('stepRaise', '(e : ExnId)', 'e', 't')))
open(os.path.join(ROOT, 'USimModel/Lemmas/TStepFrames.lean'), 'w').write(ttext)
open(os.path.join(ROOT, 'USimModel/Lemmas/TStepCases.txt'), 'w').write(
    '-- stepRet\n' + '\n'.join(cases('stepRet', 'v', 't')) + '\n-- stepRaise\n' + '\n'.join(cases('stepRaise', 'e', 't')) + '\n')
ptext = '''import USimModel.Lemmas.PView
/-!
# Frame by frame: what delivering a value / an exception to a frame does to the pending list

GENERATED by `tools/gen_kstep.py` from the constructors of `Frame` - do not edit (see `KStepFrames.lean`).
-/
set_option linter.unusedVariables false
set_option linter.unusedSimpArgs false
namespace USim.Machine
open TimeLike USim.Prim.Kernel
namespace World
variable (w : World Rat)

/-! ### stepRet -/
%s
/-! ### stepRaise -/
%s
end World
end USim.Machine
''' % ('\n'.join(lemmas('stepRet', '(v : Val)', 'v', 'p')), '\n'.join(lemmas('stepRaise', '(e : ExnId)', 'e', 'p')))
open(os.path.join(ROOT, 'USimModel/Lemmas/PStepFrames.lean'), 'w').write(ptext)
open(os.path.join(ROOT, 'USimModel/Lemmas/PStepCases.txt'), 'w').write(
    '-- stepRet\n' + '\n'.join(cases('stepRet', 'v', 'p')) + '\n-- stepRaise\n' + '\n'.join(cases('stepRaise', 'e', 'p')) + '\n')
stext = '''import USimModel.Lemmas.SView
/-!
# Frame by frame: what delivering a value / an exception to a frame does to the signal table

GENERATED by `tools/gen_kstep.py` from the constructors of `Frame` - do not edit (see `KStepFrames.lean`).
-/
set_option linter.unusedVariables false
set_option linter.unusedSimpArgs false
namespace USim.Machine
open TimeLike USim.Prim.Kernel
namespace World
variable (w : World Rat)

/-! ### stepRet -/
%s
/-! ### stepRaise -/
%s
end World
end USim.Machine
''' % ('\n'.join(lemmas('stepRet', '(v : Val)', 'v', 's')), '\n'.join(lemmas('stepRaise', '(e : ExnId)', 'e', 's')))
open(os.path.join(ROOT, 'USimModel/Lemmas/SStepFrames.lean'), 'w').write(stext)
open(os.path.join(ROOT, 'USimModel/Lemmas/SStepCases.txt'), 'w').write(
    '-- stepRet\n' + '\n'.join(cases('stepRet', 'v', 's')) + '\n-- stepRaise\n' + '\n'.join(cases('stepRaise', 'e', 's')) + '\n')
qtext = stext.replace('SView', 'QView').replace('the signal table', 'the tables of tasks and activities')
i = qtext.index('/-! ### stepRet -/')
qtext = qtext[:i] + '''/-! ### stepRet -/
%s
/-! ### stepRaise -/
%s
end World
end USim.Machine
''' % ('\n'.join(lemmas('stepRet', '(v : Val)', 'v', 'q')), '\n'.join(lemmas('stepRaise', '(e : ExnId)', 'e', 'q')))
open(os.path.join(ROOT, 'USimModel/Lemmas/QStepFrames.lean'), 'w').write(qtext)
open(os.path.join(ROOT, 'USimModel/Lemmas/QStepCases.txt'), 'w').write(
    '-- stepRet\n' + '\n'.join(cases('stepRet', 'v', 'q')) + '\n-- stepRaise\n' + '\n'.join(cases('stepRaise', 'e', 'q')) + '\n')
otext = stext.replace('SView', 'OView').replace('the signal table', 'the object tables (exceptions, scopes, queues, channels, events)')
i = otext.index('/-! ### stepRet -/')
otext = otext[:i] + '''/-! ### stepRet -/
%s
/-! ### stepRaise -/
%s
end World
end USim.Machine
''' % ('\n'.join(lemmas('stepRet', '(v : Val)', 'v', 'o')), '\n'.join(lemmas('stepRaise', '(e : ExnId)', 'e', 'o')))
open(os.path.join(ROOT, 'USimModel/Lemmas/OStepFrames.lean'), 'w').write(otext)
open(os.path.join(ROOT, 'USimModel/Lemmas/OStepCases.txt'), 'w').write(
    '-- stepRet\n' + '\n'.join(cases('stepRet', 'v', 'o')) + '\n-- stepRaise\n' + '\n'.join(cases('stepRaise', 'e', 'o')) + '\n')
ctext = stext.replace('SView', 'CView').replace('the signal table', 'the structure tables (conditions, listeners, locks, pipes)')
i = ctext.index('/-! ### stepRet -/')
ctext = ctext[:i] + '''/-! ### stepRet -/
%s
/-! ### stepRaise -/
%s
end World
end USim.Machine
''' % ('\n'.join(lemmas('stepRet', '(v : Val)', 'v', 'c')), '\n'.join(lemmas('stepRaise', '(e : ExnId)', 'e', 'c')))
open(os.path.join(ROOT, 'USimModel/Lemmas/CStepFrames.lean'), 'w').write(ctext)
print('%d constructors' % len(ctors))
