#!/bin/bash
# usage: tools_all.sh [tier]  -- run every registered check on the unchanged tree; prints one line per check and a summary
tier=${1:-quick}; bad=0
cd /verif
for p in $(python3 -c "import json; print(' '.join(c['property_id'] if 'property_id' in c else c['id'] for c in json.load(open('MANIFEST.json')).get('properties', json.load(open('MANIFEST.json')).get('checks', []))))" 2>/dev/null || echo C01 C02 C03 C04 C05 C06 C07 C08 C09 C10 C11 C12 C13 C14 C15 C16 C17 C18 C19 C20); do
  out=$(./check $p --tier $tier 2>&1); rc=$?
  echo "$p rc=$rc $(echo "$out" | grep '^check' | cut -c1-170)"
  if [ $rc -ne 0 ]; then bad=$((bad+1)); echo "$out" | grep "BROKEN\|VIOLATION\|failing input" | head -5; fi
done
echo "checks with non-zero exit: $bad"
