#!/venv/bin/python
"""Systematic mutation trial (development tool, not a registered check).

For a source file of /repo: generate first-order AST mutants, keep those that still pass the pinned test
suite (in a scratch copy under /tmp - /repo is never touched), and run the harness + Lean judges of the
properties anchored in that file against the copy (USIM_VERIF_REPO).  Reports, per surviving mutant,
whether the correspondence disagrees and whether a judge found a concrete failing input.  Used to find
gaps in the scenario families and judge clauses; every mutant breaks the per-definition pins anyway.

usage: tools_mutate.py <file relative to /repo> [--max N] [--jobs J] [--tier quick|thorough] [--out FILE]
"""
import argparse
import ast
import copy
import json
import os
import pickle
import random
import re
import shutil
import subprocess
import sys
import tempfile
from concurrent.futures import ThreadPoolExecutor

VERIF = os.path.dirname(os.path.abspath(__file__))
#: the tree mutants are derived from (a pristine checkout, so that /repo may be used for other trials meanwhile)
BASE = os.environ.get('MUT_BASE', '/repo')
sys.path.insert(0, os.path.join(VERIF, 'harness'))
import common  # noqa: E402
import registry  # noqa: E402

CMP = {ast.Lt: ast.LtE, ast.LtE: ast.Lt, ast.Gt: ast.GtE, ast.GtE: ast.Gt, ast.Eq: ast.NotEq, ast.NotEq: ast.Eq,
       ast.Is: ast.IsNot, ast.IsNot: ast.Is, ast.In: ast.NotIn, ast.NotIn: ast.In}
BIN = {ast.Add: ast.Sub, ast.Sub: ast.Add, ast.Mult: ast.Div, ast.Div: ast.Mult}


def sites(tree):
    """(kind, node path description, mutate function) for every mutation site"""
    out = []
    for node in ast.walk(tree):
        if isinstance(node, ast.Compare):
            for i, op in enumerate(node.ops):
                if type(op) in CMP:
                    out.append(('cmp', node, i))
        elif isinstance(node, ast.BoolOp):
            out.append(('bool', node, None))
        elif isinstance(node, ast.UnaryOp) and isinstance(node.op, ast.Not):
            out.append(('not', node, None))
        elif isinstance(node, (ast.If, ast.While)) and not isinstance(node.test, ast.Constant):
            out.append(('negate', node, None))
        elif isinstance(node, ast.BinOp) and type(node.op) in BIN:
            out.append(('bin', node, None))
        elif isinstance(node, ast.Constant) and isinstance(node.value, bool):
            out.append(('boolconst', node, None))
        elif isinstance(node, ast.Constant) and isinstance(node.value, int) and not isinstance(node.value, bool) and abs(node.value) < 5:
            out.append(('intconst', node, None))
        elif isinstance(node, ast.Call) and isinstance(node.func, ast.Attribute) and node.func.attr in ('pop', 'popleft', 'append', 'appendleft'):
            out.append(('container', node, None))
        body_lists = [getattr(node, f, None) for f in ('body', 'orelse', 'finalbody')]
        for bl in body_lists:
            if isinstance(bl, list):
                for i, st in enumerate(bl):
                    if isinstance(st, ast.Expr) and not isinstance(st.value, ast.Constant) and len(bl) > 1:
                        out.append(('delete', (bl, i), None))
                    def plain(x):
                        return isinstance(x, (ast.Expr, ast.Assign, ast.AugAssign)) and not (
                            isinstance(x, ast.Expr) and isinstance(x.value, ast.Constant))
                    if i + 1 < len(bl) and plain(st) and plain(bl[i + 1]):
                        out.append(('swap', (bl, i), None))
    return out


def apply(kind, node, extra):
    """mutate in place; returns a description"""
    if kind == 'cmp':
        old = type(node.ops[extra]).__name__
        node.ops[extra] = CMP[type(node.ops[extra])]()
        return 'compare %s -> %s in `%s`' % (old, type(node.ops[extra]).__name__, ast.unparse(node)[:60])
    if kind == 'bool':
        node.op = ast.Or() if isinstance(node.op, ast.And) else ast.And()
        return 'and/or swapped in `%s`' % ast.unparse(node)[:60]
    if kind == 'not':
        d = 'removed not in `%s`' % ast.unparse(node)[:60]
        node.op = ast.UAdd() if False else node.op
        inner = node.operand
        node.__class__ = ast.BoolOp
        node.__dict__.clear()
        node.op = ast.And()
        node.values = [inner, ast.Constant(True)]
        return d
    if kind == 'negate':
        d = 'negated test `%s`' % ast.unparse(node.test)[:60]
        node.test = ast.UnaryOp(op=ast.Not(), operand=node.test)
        return d
    if kind == 'bin':
        old = type(node.op).__name__
        node.op = BIN[type(node.op)]()
        return 'arith %s -> %s in `%s`' % (old, type(node.op).__name__, ast.unparse(node)[:60])
    if kind == 'boolconst':
        node.value = not node.value
        return 'constant %s -> %s' % (not node.value, node.value)
    if kind == 'intconst':
        node.value = node.value + 1
        return 'constant %d -> %d' % (node.value - 1, node.value)
    if kind == 'container':
        f = node.func
        old = f.attr
        if f.attr == 'pop':
            if node.args:
                node.args = []
            else:
                node.args = [ast.Constant(0)]
        elif f.attr == 'popleft':
            f.attr = 'pop'
        elif f.attr == 'append':
            f.attr = 'insert'
            node.args = [ast.Constant(0)] + node.args
        elif f.attr == 'appendleft':
            f.attr = 'append'
        return 'container op %s changed: `%s`' % (old, ast.unparse(node)[:60])
    if kind == 'delete':
        bl, i = node
        d = 'deleted statement `%s`' % ast.unparse(bl[i])[:70]
        bl[i] = ast.Pass()
        return d
    if kind == 'swap':
        bl, i = node
        d = 'swapped `%s` and `%s`' % (ast.unparse(bl[i])[:40], ast.unparse(bl[i + 1])[:40])
        bl[i], bl[i + 1] = bl[i + 1], bl[i]
        return d
    raise ValueError(kind)


def mutants(path, limit, seed):
    src = open(path).read()
    base = ast.parse(src)
    n = len(sites(base))
    idxs = list(range(n))
    random.Random(seed).shuffle(idxs)
    out = []
    for k in idxs[:limit]:
        tree = copy.deepcopy(base)
        kind, node, extra = sites(tree)[k]
        try:
            desc = apply(kind, node, extra)
            ast.fix_missing_locations(tree)
            text = ast.unparse(tree)
            compile(text, path, 'exec')
        except Exception:
            continue
        line = getattr(node, 'lineno', None) if not isinstance(node, tuple) else getattr(node[0][node[1]], 'lineno', None)
        out.append({'site': k, 'kind': kind, 'desc': desc, 'line': line, 'text': text})
    return out, n


def props_for(rel):
    import importlib
    sys.path.insert(0, os.path.join(VERIF, 'extract'))
    gp = importlib.import_module('gen_pins')
    key = next(k for k, v in gp.FILES.items() if v == rel)
    return [pid for pid, keys in registry.PINS.items() if key in keys]


def evaluate(args):
    m, rel, props, tier, workdir = args
    copy_dir = tempfile.mkdtemp(prefix='mut_', dir=workdir)
    res = {'site': m['site'], 'kind': m['kind'], 'desc': m['desc'], 'line': m['line']}
    try:
        shutil.copytree(BASE + '/usim', os.path.join(copy_dir, 'usim'))
        shutil.copytree(BASE + '/usim_pytest', os.path.join(copy_dir, 'usim_pytest'))
        for f in ('setup.py', 'setup.cfg', 'pyproject.toml', 'README.rst'):
            if os.path.exists(BASE + '/' + f):
                shutil.copy(BASE + '/' + f, copy_dir)
        open(os.path.join(copy_dir, rel), 'w').write(m['text'])
        env = dict(os.environ, PYTHONPATH=copy_dir, USIM_VERIF_REPO=copy_dir)
        p = subprocess.run([common.PYTHON, '-m', 'pytest', '-x', '-q', '-p', 'no:cacheprovider', '--timeout=120'], cwd=copy_dir, env=env,
                           stdout=subprocess.PIPE, stderr=subprocess.STDOUT, text=True, timeout=600)
        tail = p.stdout.strip().splitlines()[-1] if p.stdout.strip() else ''
        res['tests'] = tail
        if p.returncode != 0 or 'passed' not in tail or re.search(r'\d+ (failed|error)', tail):
            res['survived'] = False
            return res
        res['survived'] = True
        known = common.load_known_findings()
        res['props'] = {}
        for pid in props:
            out = os.path.join(copy_dir, pid + '.pkl')
            q = subprocess.run([common.PYTHON, os.path.join(VERIF, 'harness', 'par_worker.py'), registry.PROPS[pid]['harness'], tier, '0', out],
                               env=env, stdout=subprocess.DEVNULL, stderr=subprocess.PIPE, text=True, timeout=1800)
            if q.returncode != 0 or not os.path.exists(out):
                res['props'][pid] = {'error': (q.stderr or '')[-400:]}
                continue
            r = pickle.load(open(out, 'rb'))
            ks = [f for f in known if f['property'] == pid and f['status'] == 'known']
            new = [v for v in r.violations if not any(common.finding_matches(f, v['key']) for f in ks)]
            res['props'][pid] = {'evaluations': r.evaluations, 'mismatches': len(r.mismatches), 'new_violations': len(new),
                                 'example': new[0]['what'][:200] if new else None}
        return res
    except subprocess.TimeoutExpired:
        res['timeout'] = True
        return res
    finally:
        shutil.rmtree(copy_dir, ignore_errors=True)


def main():
    ap = argparse.ArgumentParser()
    ap.add_argument('file')
    ap.add_argument('--max', type=int, default=60)
    ap.add_argument('--jobs', type=int, default=12)
    ap.add_argument('--tier', default='quick')
    ap.add_argument('--seed', type=int, default=0)
    ap.add_argument('--out', default=None)
    a = ap.parse_args()
    rel = a.file
    ms, n = mutants(os.path.join(BASE, rel), a.max, a.seed)
    props = props_for(rel)
    workdir = tempfile.mkdtemp(prefix='verif_mut_')
    print('%s: %d sites, %d mutants tried, properties %s' % (rel, n, len(ms), props), flush=True)
    results = []
    try:
        with ThreadPoolExecutor(a.jobs) as ex:
            for r in ex.map(evaluate, [(m, rel, props, a.tier, workdir) for m in ms]):
                results.append(r)
                if r.get('survived'):
                    summ = {p: (v.get('mismatches'), v.get('new_violations')) if 'error' not in v else 'ERR' for p, v in r['props'].items()}
                    print('SURVIVOR line %s %s :: %s' % (r['line'], r['desc'], summ), flush=True)
    finally:
        shutil.rmtree(workdir, ignore_errors=True)
    surv = [r for r in results if r.get('survived')]
    print('%d of %d mutants pass the test suite' % (len(surv), len(results)))
    if a.out:
        json.dump(results, open(a.out, 'w'), indent=1, default=str)


if __name__ == '__main__':
    main()
