#!/usr/bin/env python3
"""Prepare / verify / save one round of seeded changes made by independent sub-agents (development tool, not a check).

  tools_mutround.py prep  <round>          scratch worktrees /tmp/wt<round>/<Cxx> of /repo HEAD and a prompt file per property
                                           (/tmp/wt<round>/<Cxx>_prompt.txt: the property text, what was tried before, the rules)
  tools_mutround.py save  <round> <Cxx>    re-verify the sub-agent's deliverables in the scratch worktree (demo exits 0 on the
                                           clean tree, 1 with the patch; pinned suite unchanged) and copy them to seeded/<Cxx>-mN
  tools_mutround.py clean <round>          remove the worktrees and /tmp/wt<round>

The sub-agents get nothing from /verif; they never work in /repo.
"""
import json
import os
import re
import shutil
import subprocess
import sys

HEAD = '''You are helping to test a verification effort for the Python library MaineKuehn/usim (a discrete-event simulation framework). Your job: produce ONE realistic source change to the library that BREAKS the semantic property quoted below while the code still imports and the library's existing test suite still passes.

You work ONLY inside your own scratch git worktree of the library at WT/PID (it is a full checkout; the package is the directory WT/PID/usim). Do not read or write anything under /verif or /repo. Write your deliverables to WT/PID_out.

The property (this is all you are given about what is being verified):

'''
TAIL = '''What to do:
1. Read the relevant code in WT/PID/usim (and the tests in WT/PID/usim_pytest to see what they do and do not cover). The change may be in ANY file of the package that influences the property - including helper modules, base classes and files that look unrelated at first sight.
2. Make a change of the kind a maintainer could plausibly make by mistake or as a well-meant "cleanup"/"optimisation"/"refactoring"/"feature tweak" (a few lines; no new files needed; do not touch tests; do not add obviously malicious or input-special-casing code) such that some clause of the property no longer holds for some input/schedule.
   Be CREATIVE and SUBTLE, and look for a kind of change that is DIFFERENT from everything in the "already tried" list above - in mechanism, not only in location. Ideas that have worked for other properties: behaviour that differs only under `python -O` (an `assert` with a side effect); an object that is shared or reused although each use needs its own (or the reverse); an operator/hook path (`__and__`, `__invert__`, `__subscribe__` of a subclass) that callers rarely take; a value captured before an `await` and used after it; a wake-up issued before the state it announces is written; bookkeeping keyed by something that can repeat (a name, a value, the activity); the difference between "is waiting right now" and "is subscribed"; an off-by-one at a capacity limit or a tie; a rarely used constructor argument or class (`Pipe(float('inf'))`, `initial_time`, `preempt=False`, volatile tasks, `count=0`); clean-up code (`finally`, `__aexit__`, generator close) that runs on an unusual exit path; an exception type caught too broadly or too narrowly.
   The violation must be a clear violation of the statement as written (not only of an unstated tie-breaking rule or of the number of scheduler turns), and must need a non-trivial scenario to show up.
3. Run the test suite against your worktree and make sure it still passes exactly as before:
   cd WT/PID && PYTHONPATH=WT/PID /venv/bin/python -m pytest -q -p no:cacheprovider --timeout=900 2>&1 | tail -3
   (expected on the unchanged tree: 251 passed, 8 xfailed). IMPORTANT: the PYTHONPATH is needed, otherwise the interpreter imports a different checkout. Verify with: cd WT/PID && PYTHONPATH=WT/PID /venv/bin/python -c "import usim; print(usim.__file__)"
4. Write a small stand-alone demonstration script WT/PID_out/demo.py that uses only the public API of usim, prints what it observes, and exits with status 1 if the property clause is violated and 0 if it holds. It must exit 0 on the unchanged tree and 1 with your change (run it both ways with PYTHONPATH=WT/PID; use `git diff > /tmp/xRND_PID.diff; git checkout .; ...; git apply /tmp/xRND_PID.diff` to switch).
5. Save `git diff` of your change as WT/PID_out/patch.diff (it must apply with `git apply` to a clean checkout of the same commit), and write WT/PID_out/notes.md: first line `# <one-line summary of the change>`, then which clause breaks, why the tests do not notice, and what scenario is needed to see it.
6. Leave the worktree with your change applied or not - it will be deleted. Do not commit.

Report back in a few lines: the files you wrote, the summary of the change, the test result with the change, and the demo's exit codes on both trees.
'''
KNOWN = {
    'C06': 'a task closed by its scope inside `try ... finally` whose clean-up raises goes from CANCELLED to FAILED',
    'C07': '`until(a & b)` / `until(a | b)` with connective notifications never interrupts the block',
    'C08': '(1) a connective nested in a connective, e.g. `(a | b) & c`, loses wake-ups; (2) `~` of a comparison of multi-component resource levels is not its negation',
    'C12': '(1) a borrow block cancelled/interrupted inside its own acquire or release postponement leaks its amount; (2) a borrowed share that is left while another activity still borrows from it gets a negative level',
    'C15': "with `run(..., till=T)` a root activity's return value is dropped silently and failures arrive wrapped in Concurrent",
    'C17': 'an exact handler `Concurrent[A, B]` accepts a failure whose children are all of type A',
}
ORD = {10: 'tenth', 11: 'eleventh', 12: 'twelfth', 13: 'thirteenth', 14: 'fourteenth', 15: 'fifteenth'}


def prep(rnd):
    wt = '/tmp/wt%d' % rnd
    os.makedirs(wt, exist_ok=True)
    props = {json.loads(l)['id']: json.loads(l) for l in open('/verif/properties.jsonl')}
    tried = {}
    for d in sorted(os.listdir('/verif/seeded')):
        mp = '/verif/seeded/%s/meta.json' % d
        if os.path.exists(mp):
            m = json.load(open(mp))
            tried.setdefault(d.split('-')[0], []).append((m.get('needs_to_manifest') or '').lstrip('# ')[:140])
    for pid in sorted(props):
        p = props[pid]
        block = ('ID: %s\nTitle: %s\nStatement: %s\nQuantified over: %s\nWhy the existing tests cannot settle it: %s\nCode anchors: %s\n\n'
                 % (pid, p['title'], p['statement'], json.dumps(p['quantifier']), p['why_tests_cant'], json.dumps(p['anchors'])))
        extra = ('Already tried for this property (find something of a different kind):\n' +
                 '\n'.join('- ' + x.split(' - ', 1)[-1] for x in tried.get(pid, [])) + '\n\n')
        if pid in KNOWN:
            extra += ('Known weaknesses of the unchanged library that do NOT count as your change and that your demo must avoid: '
                      + KNOWN[pid] + '\n\n')
        text = (HEAD + block + extra + TAIL).replace('WT', wt).replace('PID', pid).replace('RND', str(rnd))
        open('%s/%s_prompt.txt' % (wt, pid), 'w').write(text)
        os.makedirs('%s/%s_out' % (wt, pid), exist_ok=True)
        r = subprocess.run(['git', '-C', '/repo', 'worktree', 'add', '--detach', '%s/%s' % (wt, pid), 'HEAD'], capture_output=True, text=True)
        if r.returncode:
            print(pid, r.stderr)
    print('prepared', wt)


def verify(rnd, pid):
    wt = '/tmp/wt%d/%s' % (rnd, pid)
    out = '/tmp/wt%d/%s_out' % (rnd, pid)
    env = dict(os.environ, PYTHONPATH=wt)
    sh = lambda cmd, **kw: subprocess.run(cmd, cwd=wt, env=env, capture_output=True, text=True, **kw)
    sh(['git', 'checkout', '-q', '--', '.'])
    sh(['git', 'clean', '-fdq'])
    c = sh(['/venv/bin/python', out + '/demo.py'], timeout=600).returncode
    a = sh(['git', 'apply', out + '/patch.diff'])
    if a.returncode:
        return None, 'patch does not apply: ' + a.stderr
    t = sh(['/venv/bin/python', '-m', 'pytest', '-q', '-p', 'no:cacheprovider', '--timeout=900']).stdout.strip().splitlines()[-1]
    m = sh(['/venv/bin/python', out + '/demo.py'], timeout=600).returncode
    files = sh(['git', 'diff', '--name-only']).stdout.split()
    sh(['git', 'checkout', '-q', '--', '.'])
    return (c, m, t, files), '%s demo_clean=%s demo_mut=%s tests: %s files: %s' % (pid, c, m, t, ' '.join(files))


def save(rnd, pid):
    out = '/tmp/wt%d/%s_out' % (rnd, pid)
    res, line = verify(rnd, pid)
    print(line)
    if res is None or res[0] != 0 or res[1] != 1 or '251 passed, 8 xfailed' not in res[2]:
        print('NOT saved')
        return 1
    n = 1
    while os.path.exists('/verif/seeded/%s-m%d' % (pid, n)):
        n += 1
    mid = '%s-m%d' % (pid, n)
    d = '/verif/seeded/' + mid
    os.makedirs(d)
    for f in ('patch.diff', 'demo.py', 'notes.md'):
        shutil.copy(os.path.join(out, f), d)
    head = subprocess.run(['git', '-C', '/repo', 'rev-parse', '--short', 'HEAD'], capture_output=True, text=True).stdout.strip()
    meta = {'id': mid, 'breaks_property': pid, 'files_changed': res[3],
            'origin': 'independent sub-agent (%s round) given only the property text and a scratch worktree of /repo at %s' % (ORD.get(rnd, str(rnd)), head),
            'needs_to_manifest': open(os.path.join(out, 'notes.md')).readline().strip(),
            'verified': {'how': 'scratch worktree /tmp/wt%d/%s of /repo HEAD %s: (1) demo.py on the unchanged tree exits 0; (2) git apply patch.diff; '
                                'pinned suite -> 251 passed, 8 xfailed; (3) demo.py exits 1; (4) checkout' % (rnd, pid, head),
                         'tests_with_patch': '251 passed, 8 xfailed', 'demo_clean_rc': 0, 'demo_mutated_rc': 1},
            'detected_by': None}
    json.dump(meta, open(d + '/meta.json', 'w'), indent=1)
    print('saved', mid)
    return 0


def clean(rnd):
    wt = '/tmp/wt%d' % rnd
    for d in sorted(os.listdir(wt)) if os.path.isdir(wt) else []:
        if re.fullmatch(r'C\d\d', d):
            subprocess.run(['git', '-C', '/repo', 'worktree', 'remove', '--force', os.path.join(wt, d)], capture_output=True)
    shutil.rmtree(wt, ignore_errors=True)
    subprocess.run(['git', '-C', '/repo', 'worktree', 'prune'])
    for f in os.listdir('/tmp'):
        if re.fullmatch(r'x%d_C\d\d\.diff' % rnd, f):
            os.remove('/tmp/' + f)


if __name__ == '__main__':
    cmd, rnd = sys.argv[1], int(sys.argv[2])
    if cmd == 'prep':
        prep(rnd)
    elif cmd == 'save':
        sys.exit(save(rnd, sys.argv[3]))
    elif cmd == 'clean':
        clean(rnd)
