#!/bin/bash
# usage: tools_seeded.sh Cxx [tier]  -- apply every seeded change for property Cxx to /repo, run the check, undo
pid=$1; tier=${2:-quick}
for d in /verif/seeded/$pid-*; do
  [ -d "$d" ] || continue
  git -C /repo apply $d/patch.diff || { echo "$d: patch does not apply"; continue; }
  out=$(cd /verif && VERIF_EVIDENCE_DIR=/tmp/verif_seeded_evidence timeout 1800 ./check $pid --tier $tier 2>&1); rc=$?
  git -C /repo checkout -- .; python3 /verif/extract/run.py
  echo "== $(basename $d): exit=$rc"
  echo "$out" | grep -E "^check|BROKEN|failing input|VIOLATION|KNOWN|internal" | head -8
done
