#!/bin/bash
# usage: tools_all.sh [quick|thorough|both]  -- run every registered check on /repo as it is; list non-zero exits
tiers=${1:-both}; [ "$tiers" = both ] && tiers="quick thorough"
cd /verif || exit 2
bad=0
for t in $tiers; do
  for n in $(seq -w 1 20); do
    out=$(./check C$n --tier $t 2>&1); rc=$?
    echo "C$n $t exit=$rc $(echo "$out" | grep -E '^check' | tail -1)"
    if [ $rc -ne 0 ]; then bad=$((bad+1)); echo "$out" | tail -15; fi
  done
done
echo "non-zero exits: $bad"
