#!/usr/bin/env python3
"""Run every seeded change of /verif/seeded against its property's check (development tool, not a registered check).

/repo and /verif are not touched while it runs: each worker has a scratch worktree of /repo (USIM_VERIF_REPO) and a
scratch copy of /verif under /tmp (its own Lean build directory), both removed at the end.  Afterwards
`seeded/<id>/meta.json:detected_by` and `seeded/TABLE.md` are rewritten from what the checks printed.

usage: tools_seeded_all.py [--jobs 4] [--only C11,C15] [--tier quick]
"""
import argparse
import json
import os
import re
import shutil
import subprocess
import sys
from concurrent.futures import ThreadPoolExecutor
import threading

GIT_LOCK = threading.Lock()      # (`git worktree add/remove` of several workers at once trip over each other)

VERIF = os.path.dirname(os.path.abspath(__file__))


def sh(cmd, **kw):
    return subprocess.run(cmd, stdout=subprocess.PIPE, stderr=subprocess.STDOUT, text=True, **kw)


def worker(k, ids, tier):
    repo = '/tmp/verif_sd_repo_%d' % k
    verif = '/tmp/verif_sd_copy_%d' % k
    out = {}
    with GIT_LOCK:
        sh(['git', '-C', '/repo', 'worktree', 'remove', '--force', repo])
        shutil.rmtree(verif, ignore_errors=True)
        r = sh(['git', '-C', '/repo', 'worktree', 'add', '--detach', repo, 'HEAD'])
    assert r.returncode == 0, r.stdout
    sh(['rsync', '-a', '--exclude', 'evidence/replays', '--exclude', '.git', VERIF + '/', verif + '/'])
    env = dict(os.environ, USIM_VERIF_REPO=repo, VERIF_EVIDENCE_DIR=verif + '/evidence_trial')
    try:
        for mid in ids:
            pid = mid.split('-')[0]
            a = sh(['git', '-C', repo, 'apply', os.path.join(VERIF, 'seeded', mid, 'patch.diff')])
            if a.returncode != 0:
                out[mid] = {'error': 'patch does not apply: ' + a.stdout[-300:]}
                continue
            try:
                c = sh([os.path.join(verif, 'check'), pid, '--tier', tier], env=env, cwd=verif, timeout=3600)
                text, rc = c.stdout, c.returncode
            except subprocess.TimeoutExpired:
                text, rc = 'time-out', 2
            sh(['git', '-C', repo, 'checkout', '--', '.'])
            # (a check regenerates only its own property's Gen modules: bring all of them back to the clean tree)
            sh([sys.executable, os.path.join(verif, 'extract', 'run.py'), '--repo', repo], cwd=verif)
            m = re.search(r'(\d+)/(\d+) obligations discharged, (\d+) implementation cases .*?, (\d+) correspondence mismatches, '
                          r'(\d+) judge violations \((\d+) known\)', text)
            ev = {}
            try:
                ev = json.load(open(os.path.join(verif, 'evidence_trial', pid + '.json')))['coverage']
            except Exception:   # noqa
                pass
            first = next((ln.strip()[len('failing input:'):].strip() for ln in text.splitlines() if ln.strip().startswith('failing input:')), None)
            out[mid] = {
                'exit': rc,
                'obligations': int(m.group(2)) if m else None,
                'broken': int(m.group(2)) - int(m.group(1)) if m else None,
                'mismatches': int(m.group(4)) if m else None,
                'new_violations': int(m.group(5)) - int(m.group(6)) if m else None,
                'escalated': bool(ev.get('escalated_search')),
                'no_failing_input_found': 'no-failing-input-found' in text,
                'violation_line': any(ln.startswith('VIOLATION property=%s ' % pid) for ln in text.splitlines()),
                'first_failing_input': first,
                'tail': text[-600:] if not m else None,
            }
            print('%s exit=%s broken=%s mism=%s new=%s esc=%s nofail=%s' % (
                mid, rc, out[mid]['broken'], out[mid]['mismatches'], out[mid]['new_violations'], out[mid]['escalated'],
                out[mid]['no_failing_input_found']), flush=True)
    finally:
        with GIT_LOCK:
            sh(['git', '-C', '/repo', 'worktree', 'remove', '--force', repo])
            shutil.rmtree(verif, ignore_errors=True)
            sh(['git', '-C', '/repo', 'worktree', 'prune'])
    return out


def main():
    ap = argparse.ArgumentParser()
    ap.add_argument('--jobs', type=int, default=4)
    ap.add_argument('--only', default='')
    ap.add_argument('--tier', default='quick')
    a = ap.parse_args()
    ids = sorted(d for d in os.listdir(os.path.join(VERIF, 'seeded')) if os.path.isdir(os.path.join(VERIF, 'seeded', d)))
    if a.only:
        keep = a.only.split(',')
        ids = [i for i in ids if i.split('-')[0] in keep or i in keep]
    parts = [ids[k::a.jobs] for k in range(a.jobs)]
    results = {}
    with ThreadPoolExecutor(a.jobs) as ex:
        for r in ex.map(lambda kp: worker(kp[0], kp[1], a.tier), [(k, p) for k, p in enumerate(parts) if p]):
            results.update(r)
    for mid, r in sorted(results.items()):
        mp = os.path.join(VERIF, 'seeded', mid, 'meta.json')
        meta = json.load(open(mp))
        if 'error' in r or r['obligations'] is None:
            meta['detected_by'] = {'error': r.get('error') or r.get('tail')}
        else:
            ch = []
            if r['broken']:
                ch.append('proof obligations broken (%d of %d)' % (r['broken'], r['obligations']))
            if r['mismatches']:
                ch.append('correspondence mismatches (%d)' % r['mismatches'])
            if r['new_violations']:
                ch.append('judge violations with concrete replay (%d%s): %s' % (
                    r['new_violations'], ', after escalation to the thorough search' if r['escalated'] else '', r['first_failing_input']))
            meta['detected_by'] = {'check': './check %s --tier %s' % (mid.split('-')[0], a.tier), 'exit': r['exit'], 'channels': ch,
                                   'no_failing_input_found': r['no_failing_input_found']}
        json.dump(meta, open(mp, 'w'), indent=1)
    # table
    rows = ['| change | what it does (first line of the sub-agent\'s notes) | obligations broken | trace mismatches | new judge violations (concrete replay) |',
            '|---|---|---|---|---|']
    for mid in sorted(os.listdir(os.path.join(VERIF, 'seeded'))):
        mp = os.path.join(VERIF, 'seeded', mid, 'meta.json')
        if not os.path.exists(mp):
            continue
        meta = json.load(open(mp))
        r = results.get(mid)
        if r is None or r.get('obligations') is None:
            continue
        what = (meta.get('needs_to_manifest') or '').lstrip('# ').replace('|', '\\|')[:150]
        nv = 'none: `no-failing-input-found`' if r['no_failing_input_found'] else '%d%s' % (
            r['new_violations'], ' (after escalation to the thorough search)' if r['escalated'] else '')
        rows.append('| `seeded/%s` | %s | %d of %d | %d | %s |' % (mid, what, r['broken'], r['obligations'], r['mismatches'], nv))
    if not a.only:
        open(os.path.join(VERIF, 'seeded', 'TABLE.md'), 'w').write('\n'.join(rows) + '\n')
    bad = [m for m, r in results.items() if r.get('exit') != 1]
    print('%d changes run, %d not reported (exit != 1): %s' % (len(results), len(bad), bad))
    nf = [m for m, r in results.items() if r.get('no_failing_input_found')]
    print('no-failing-input-found: %s' % nf)


if __name__ == '__main__':
    main()
